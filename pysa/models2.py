"""Supplementary library models (second batch): idioms that realistic edits of the crate use and that are not needed by the
pinned tree.  Same contract as models.apply: return a value, raise Undecided/Unsupported/Diverge, or NotImplemented.
Every model is exact on the abstract values it accepts; anything else falls through (strict mode then reports INCONCLUSIVE)."""
from . import bv
from .bv import Int, mkbool, TOP, ZERO, ONE
from .absint import Adt, Arr, Cell, Diverge, Opaque, Ref, Tup, Undecided, Unsupported, VecV, tags_of

ORD = "std::cmp::Ordering"


def _conc(x):
    return isinstance(x, Int) and x.is_conc()


def _sval(x):
    return x.sval() if x.signed else x.val


def _truth(r, what):
    if _conc(r):
        return bool(r.val)
    raise Undecided("%s yields %r" % (what, r))


def _ord_of(it, a, b, what):
    """-1/0/1 for two values compared with Ord (ints via the interpreter so that oracles apply)"""
    if isinstance(a, Int) and isinstance(b, Int):
        o = it.binop("Cmp", a, b, ORD)
        return o.variant - 1
    if isinstance(a, Tup) and isinstance(b, Tup) and len(a.fields) == len(b.fields):
        for x, y in zip(a.fields, b.fields):
            c = _ord_of(it, x, y, what)
            if c:
                return c
        return 0
    if isinstance(a, Adt) and isinstance(b, Adt) and a.name == b.name:
        # a user type: its own Ord::cmp (or PartialOrd::partial_cmp)
        pool = it.facts.insts.values() if it.mono else it.facts.fns.values()
        ub = pb = None
        for bdy in pool:
            if bdy.get("impl_self", "").split("<")[0] != a.name:
                continue
            if bdy["path"].endswith("::cmp") and "Ord" in (bdy.get("impl_trait", "") or bdy["path"]) and "PartialOrd" not in (bdy.get("impl_trait", "") or bdy["path"]):
                ub = bdy
            if bdy["path"].endswith("::partial_cmp"):
                pb = bdy
        for body_, opt in ((ub, False), (pb, True)):
            if body_ is None:
                continue
            o = it.call_body(body_, [Ref(Cell(a, "cmp-a")), Ref(Cell(b, "cmp-b"))])
            if opt and isinstance(o, Adt) and o.variant == 1:
                o = o.fields[0]
            if isinstance(o, Adt) and o.variant is not None and not o.fields:
                return o.variant - 1
    # opaque values the harness has an order model for (the two scripted keys of an entry-point table: their true order is an oracle)
    h_ = getattr(it, "h", None)
    if h_ is not None and hasattr(h_, "ident") and hasattr(h_, "cmp_ident"):
        c_ = h_.cmp_ident(h_.ident(a), h_.ident(b))
        if c_ is not None:
            return c_
    raise Undecided("%s: ordering of %r and %r" % (what, a, b))


def struct_eq(it, a, b, depth=0):
    """structural equality of two abstract values (what a derived / primitive PartialEq computes); Undecided when it is not determined"""
    if depth > 8:
        raise Undecided("equality nested too deep")
    while isinstance(a, Ref) and isinstance(b, Ref):
        va, vb = it.read(a.cell, a.path), it.read(b.cell, b.path)
        if isinstance(va, (Arr, VecV)) and isinstance(vb, (Arr, VecV)):
            na = (len(va.elems) - a.off) if a.len is None else a.len
            nb = (len(vb.elems) - b.off) if b.len is None else b.len
            if not isinstance(na, int) or not isinstance(nb, int):
                raise Undecided("equality of slices of symbolic length")
            if na != nb:
                return False
            return all(struct_eq(it, x, y, depth + 1) for x, y in zip(va.elems[a.off:a.off + na], vb.elems[b.off:b.off + nb]))
        a, b = va, vb
    if isinstance(a, Int) and isinstance(b, Int):
        r = it.binop("Eq", a, b, "bool")
        if _conc(r):
            return bool(r.val)
        raise Undecided("equality of %r and %r" % (a, b))
    if isinstance(a, Tup) and isinstance(b, Tup) and len(a.fields) == len(b.fields):
        return all(struct_eq(it, x, y, depth + 1) for x, y in zip(a.fields, b.fields))
    if isinstance(a, (Arr, VecV)) and isinstance(b, (Arr, VecV)):
        return len(a.elems) == len(b.elems) and all(struct_eq(it, x, y, depth + 1) for x, y in zip(a.elems, b.elems))
    if isinstance(a, Adt) and isinstance(b, Adt) and a.name == b.name and a.variant is not None and b.variant is not None:
        # only for types whose equality is structural here: std enums/structs and field-less user enums
        if a.variant != b.variant:
            return False
        if not a.fields and not b.fields:
            return True
        if a.name.startswith("std::") or a.name.startswith("core::"):
            return all(struct_eq(it, x, y, depth + 1) for x, y in zip(a.fields, b.fields))
    raise Undecided("equality of %r and %r" % (a, b))


def _run_pending(it, sc, call_callable, term, caller, depth):
    """run the not-yet-run tasks of a thread scope, each atomically, in an order chosen by the harness"""
    import itertools
    pend = [i for i, t in enumerate(sc["tasks"]) if not t["done"]]
    if not pend:
        return
    order = pend
    choose = getattr(it.h, "choose", None)
    if len(pend) > 1 and choose is not None:
        perms = [tuple(p_) for p_ in itertools.permutations(pend)]
        order = choose("schedule@scope%d/%s" % (sc["id"], ",".join(map(str, pend))), tuple(perms))
    for i in order:
        t = sc["tasks"][i]
        t["done"] = True
        t["result"] = call_callable(it, t["f"], [], term, caller, depth)


def apply(it, fn, args, dest_ty, term, caller, depth, M):
    """M = the models module (for helpers)"""
    path = M._strip(fn.get("path", ""))
    rpath = M._strip(fn.get("rpath") or fn.get("path", ""))
    name = path.split("::")[-1]
    tr = fn.get("trait", "") or ""
    some, none, deref_val, seq_of, call_callable, IterV, iter_next = M.some, M.none, M.deref_val, M.seq_of, M.call_callable, M.IterV, M.iter_next

    # ------------------------------------------------------------------ capacity management of std collections: no observable effect, whatever the
    # abstract value of the collection
    if name in ("reserve", "reserve_exact", "shrink_to_fit", "shrink_to") and path.startswith(("core::vec::Vec", "core::collections::VecDeque", "core::collections::vec_deque::VecDeque", "core::string::String",
                                                                                                "core::collections::HashMap", "core::collections::HashSet", "core::collections::hash")):
        return M.Tup([])

    # ------------------------------------------------------------------ operator traits on (references to) primitive integers
    OPS = {"add": "Add", "sub": "Sub", "mul": "Mul", "div": "Div", "rem": "Rem", "bitand": "BitAnd", "bitor": "BitOr", "bitxor": "BitXor", "shl": "Shl", "shr": "Shr"}
    if tr.startswith("std::ops::") or tr.startswith("core::ops::"):
        tn = tr.split("::")[-1].split("<")[0]
        if name in OPS and tn.lower() == name and len(args) == 2:
            a, b = deref_val(it, args[0]), deref_val(it, args[1])
            if isinstance(a, Int) and isinstance(b, Int):
                return it.binop(OPS[name], a, b, dest_ty)
        if name.endswith("_assign") and name[:-7] in OPS and len(args) == 2 and isinstance(args[0], Ref):
            a, b = it.read(args[0].cell, args[0].path), deref_val(it, args[1])
            if isinstance(a, Int) and isinstance(b, Int):
                it.write(args[0].cell, args[0].path, it.binop(OPS[name[:-7]], a, b, dest_ty))
                return Tup([])
        if name == "not" and tn == "Not" and len(args) == 1:
            a = deref_val(it, args[0])
            if isinstance(a, Int):
                return mkbool(not a.val) if a.kind == "bool" and a.is_conc() else Int(a.w, a.signed, bits=[bv.t_not(x) for x in a.getbits()], kind=a.kind)

    # ------------------------------------------------------------------ log macros: `if lvl <= STATIC_MAX_LEVEL && lvl <= max_level() { log(..) }`
    # logging is no part of any property; the message arguments ARE evaluated (level tests answer "enabled") so that nothing is skipped
    if name in ("le", "lt", "ge", "gt") and tr.endswith("PartialOrd") and (fn.get("targs") or [""])[0].startswith("log::Level"):
        return mkbool(name in ("le", "lt"))

    # ------------------------------------------------------------------ checked integer conversions: T::try_from(x) / x.try_into()
    if name in ("try_from", "try_into") and ("convert::TryFrom" in tr or "convert::TryInto" in tr) and len(args) == 1 and isinstance(args[0], Int):
        WID = {"u8": (8, False), "u16": (16, False), "u32": (32, False), "u64": (64, False), "usize": (64, False), "u128": (128, False),
               "i8": (8, True), "i16": (16, True), "i32": (32, True), "i64": (64, True), "isize": (64, True), "i128": (128, True)}
        ta = fn.get("targs") or []
        dst = ta[0] if name == "try_from" and ta else (ta[1] if len(ta) > 1 else None)
        if dst in WID:
            w_, sg_ = WID[dst]
            x = args[0]
            lo_, hi_ = (-(1 << (w_ - 1)), (1 << (w_ - 1)) - 1) if sg_ else (0, (1 << w_) - 1)
            rlo, rhi = x.rng() if hasattr(x, "rng") else (None, None)
            if x.is_conc():
                v_ = x.sval() if x.signed else x.val
                rlo = rhi = v_
            if rlo is not None and rhi is not None and lo_ <= rlo and rhi <= hi_:
                return Adt("std::result::Result", 0, [bv.cast(x, w_, sg_) if hasattr(bv, "cast") else Int(w_, sg_, val=(x.val & ((1 << w_) - 1)))])
            if rlo is not None and rhi is not None and (rhi < lo_ or rlo > hi_):
                return Adt("std::result::Result", 1, [Adt("std::num::TryFromIntError", 0, [Tup([])])])
            raise Undecided("%s of %r into %s: whether it fits is not determined" % (name, x, dst))

    # ------------------------------------------------------------------ vec![a, b, c]: Box::new_uninit + in-place write + box_assume_init_into_vec_unsafe
    if name == "new_uninit" and path.startswith("alloc::boxed::Box") or (name == "new_uninit" and "boxed::Box" in path):
        skeleton = Adt("std::mem::MaybeUninit", 0, [Tup([]), Adt("std::mem::ManuallyDrop", 0, [Adt("std::mem::MaybeDangling", 0, [Opaque("uninit", {"uninit"})])])])
        return Adt("std::boxed::Box", 0, [Adt("std::ptr::Unique", 0, [Ref(Cell(skeleton, "box")), Adt("std::marker::PhantomData", 0, [])]), Adt("std::alloc::Global", 0, [])])
    if "box_assume_init_into_vec_unsafe" in path and len(args) == 1 and isinstance(args[0], Adt):
        try:
            r = args[0].fields[0].fields[0]
            v = it.read(r.cell, r.path).fields[1].fields[0].fields[0]
        except (AttributeError, IndexError, TypeError):
            v = None
        if isinstance(v, Arr):
            return VecV(list(v.elems))
    if name == "into_vec" and "slice" in path and len(args) == 1:
        a = args[0]
        if isinstance(a, Adt) and a.name.endswith("boxed::Box"):
            try:
                r = a.fields[0].fields[0]
                v = it.read(r.cell, r.path)
                if isinstance(v, Adt):
                    v = v.fields[1].fields[0].fields[0]
            except (AttributeError, IndexError, TypeError):
                v = None
            if isinstance(v, Arr):
                return VecV(list(v.elems))

    # ------------------------------------------------------------------ == / != on std enums and structs (Option, Result, Ordering, tuples)
    if name in ("eq", "ne") and tr.split("::")[-1].split("<")[0] == "PartialEq" and len(args) == 2:
        xa, xb = deref_val(it, args[0]), deref_val(it, args[1])
        if (isinstance(xa, Adt) and isinstance(xb, Adt) and xa.name == xb.name and (xa.name.startswith("std::") or xa.name.startswith("core::"))) or \
                (isinstance(xa, Tup) and isinstance(xb, Tup)):
            same = struct_eq(it, xa, xb)
            return mkbool(same if name == "eq" else not same)

    # ------------------------------------------------------------------ From / Into between sequence types
    if name in ("from", "into") and (tr.endswith("convert::From") or tr.startswith("std::convert::From") or tr.endswith("convert::Into") or "convert::From<" in tr or "convert::Into<" in tr) and len(args) == 1:
        a = args[0]
        dty = dest_ty or ""
        src = a
        if isinstance(a, Ref):
            sq = seq_of(it, a)
            src = VecV(list(sq[0].elems[sq[1]:sq[1] + sq[2]])) if sq is not None else a
        if isinstance(src, (VecV, Arr, M.DequeV)):
            if dty.startswith("std::collections::VecDeque<"):
                return M.DequeV(list(src.elems))
            if dty.startswith("std::vec::Vec<") or dty.startswith("std::string::String") or dty.startswith("std::boxed::Box<["):
                return VecV(list(src.elems))

    # ------------------------------------------------------------------ comparison of tuples / cmp::Reverse
    if name in ("cmp", "partial_cmp", "lt", "le", "gt", "ge", "eq", "ne") and len(args) == 2 and tr.split("::")[-1].split("<")[0] in ("Ord", "PartialOrd", "PartialEq"):
        xa, xb = deref_val(it, args[0]), deref_val(it, args[1])

        def ord_t(p_, q_):
            if isinstance(p_, Adt) and isinstance(q_, Adt) and p_.name.endswith("cmp::Reverse") and q_.name.endswith("cmp::Reverse"):
                return -ord_t(p_.fields[0], q_.fields[0])
            if isinstance(p_, Tup) and isinstance(q_, Tup) and len(p_.fields) == len(q_.fields):
                for u_, v_ in zip(p_.fields, q_.fields):
                    c_ = ord_t(u_, v_)
                    if c_:
                        return c_
                return 0
            return _ord_of(it, p_, q_, "tuple comparison")
        if (isinstance(xa, Tup) and isinstance(xb, Tup)) or (isinstance(xa, Adt) and xa.name.endswith("cmp::Reverse") and isinstance(xb, Adt)):
            c = ord_t(xa, xb)
            if name == "cmp":
                return Adt(ORD, c + 1, [])
            if name == "partial_cmp":
                return some(Adt(ORD, c + 1, []))
            return mkbool({"lt": c < 0, "le": c <= 0, "gt": c > 0, "ge": c >= 0, "eq": c == 0, "ne": c != 0}[name])

    # ------------------------------------------------------------------ HashSet / BTreeSet of concrete integers
    if ("collections::HashSet" in path or "collections::BTreeSet" in path or "hash::set::HashSet" in path or "btree::set::BTreeSet" in path or
            "collections::hash::set" in path or "collections::btree::set" in path):
        if name in ("new", "default", "with_capacity") and not (args and isinstance(args[0], Ref)):
            return Opaque(dest_ty, {"collected-set"}, {"items": []})
        if args and isinstance(args[0], Ref):
            sv = it.read(args[0].cell, args[0].path)
            if isinstance(sv, Opaque) and "collected-set" in sv.tags and all(_conc(deref_val(it, x)) for x in sv.info["items"]):
                vals = [deref_val(it, x).val for x in sv.info["items"]]
                if name == "contains" and len(args) == 2 and _conc(deref_val(it, args[1])):
                    return mkbool(deref_val(it, args[1]).val in vals)
                if name == "insert" and len(args) == 2 and _conc(deref_val(it, args[1])):
                    x = deref_val(it, args[1])
                    fresh = x.val not in vals
                    if fresh:
                        it.write(args[0].cell, args[0].path, Opaque(sv.ty, sv.tags, {"items": list(sv.info["items"]) + [x]}))
                    return mkbool(fresh)
                if name == "remove" and len(args) == 2 and _conc(deref_val(it, args[1])):
                    x = deref_val(it, args[1])
                    had = x.val in vals
                    it.write(args[0].cell, args[0].path, Opaque(sv.ty, sv.tags, {"items": [y for y in sv.info["items"] if deref_val(it, y).val != x.val]}))
                    return mkbool(had)
                if name == "len":
                    return Int(64, False, val=len(set(vals)))
                if name == "is_empty":
                    return mkbool(not vals)

    # ------------------------------------------------------------------ comparison of sequences (Vec / slice / array): lexicographic
    if name in ("cmp", "partial_cmp", "eq", "ne", "lt", "le", "gt", "ge") and len(args) == 2 and tr.split("::")[-1].split("<")[0] in ("Ord", "PartialOrd", "PartialEq"):
        def seq_items(x):
            for _ in range(3):
                if isinstance(x, Ref):
                    sq = seq_of(it, x)
                    if sq is not None:
                        return list(sq[0].elems[sq[1]:sq[1] + sq[2]])
                    x = it.read(x.cell, x.path)
                else:
                    break
            if isinstance(x, (VecV, Arr)):
                return list(x.elems)
            return None
        xa, xb = seq_items(args[0]), seq_items(args[1])
        if xa is not None and xb is not None and all(isinstance(e, Int) for e in xa + xb):
            if name in ("eq", "ne"):
                same = len(xa) == len(xb) and all(struct_eq(it, p_, q_) for p_, q_ in zip(xa, xb))
                return mkbool(same if name == "eq" else not same)
            c = 0
            for p_, q_ in zip(xa, xb):
                c = _ord_of(it, p_, q_, "sequence comparison")
                if c:
                    break
            if c == 0:
                c = (len(xa) > len(xb)) - (len(xa) < len(xb))
            if name == "cmp":
                return Adt(ORD, c + 1, [])
            if name == "partial_cmp":
                return some(Adt(ORD, c + 1, []))
            return mkbool({"lt": c < 0, "le": c <= 0, "gt": c > 0, "ge": c >= 0}[name])

    # ------------------------------------------------------------------ threads: explicit schedules at closure granularity
    # std::thread::scope / Scope::spawn / JoinHandle::join / mpsc channels.  A spawned closure is a task; tasks run atomically, in an
    # order chosen by the harness oracle ("schedule@…": every permutation of the pending tasks is explored when the harness explores
    # oracles; otherwise program order).  Every explored order is a real schedule, so a result that differs between two of them is a real
    # schedule dependence; results that agree on all of them are schedule-independent only up to this granularity (stated in the evidence).
    if path in ("std::thread::scope", "core::thread::scope") and len(args) == 1:
        reg = it.__dict__.setdefault("_scopes", [])
        sc = {"tasks": [], "id": len(reg)}
        reg.append(sc)
        r = call_callable(it, args[0], [Ref(Cell(Opaque("std::thread::Scope", {"thread-scope"}, {"scope": sc["id"]}), "scope"))], term, caller, depth)
        _run_pending(it, sc, call_callable, term, caller, depth)
        return r
    if name == "spawn" and ("thread::Scope" in path or "thread::scoped::Scope" in path) and len(args) == 2:
        scv = deref_val(it, args[0])
        reg = it.__dict__.get("_scopes", [])
        sid = scv.info.get("scope") if isinstance(scv, Opaque) else None
        if sid is None or sid >= len(reg):
            raise Unsupported("spawn on an unknown thread scope")
        sc = reg[sid]
        if len(sc["tasks"]) >= 4:
            raise Unsupported("more than 4 concurrent tasks in one scope")
        sc["tasks"].append({"f": args[1], "done": False, "result": None})
        return Adt("std::thread::ScopedJoinHandle", 0, [Int(64, False, val=sid), Int(64, False, val=len(sc["tasks"]) - 1)])
    if name == "join" and "JoinHandle" in path and len(args) == 1 and isinstance(args[0], Adt) and args[0].name == "std::thread::ScopedJoinHandle":
        sid, ti = args[0].fields[0].val, args[0].fields[1].val
        sc = it.__dict__.get("_scopes", [])[sid]
        _run_pending(it, sc, call_callable, term, caller, depth)
        return Adt("std::result::Result", 0, [sc["tasks"][ti]["result"]])
    if path in ("std::sync::mpsc::channel", "core::sync::mpsc::channel") and not args:
        q = Cell(VecV([]), "channel-queue")
        return Tup([Adt("std::sync::mpsc::Sender", 0, [Ref(q)]), Adt("std::sync::mpsc::Receiver", 0, [Ref(q)])])
    if "mpsc::Sender" in path or "mpsc::Receiver" in path or (name == "clone" and args and isinstance(deref_val(it, args[0]), Adt) and deref_val(it, args[0]).name == "std::sync::mpsc::Sender"):
        ch = deref_val(it, args[0]) if args else None
        if isinstance(ch, Adt) and ch.name in ("std::sync::mpsc::Sender", "std::sync::mpsc::Receiver"):
            q = ch.fields[0]
            if name == "clone":
                return ch
            if name == "send" and len(args) == 2:
                cur = it.read(q.cell, q.path)
                it.write(q.cell, q.path, VecV(list(cur.elems) + [args[1]]))
                return Adt("std::result::Result", 0, [Tup([])])
            if name in ("recv", "try_recv") and len(args) == 1:
                cur = it.read(q.cell, q.path)
                if not cur.elems:
                    for sc in it.__dict__.get("_scopes", []):
                        _run_pending(it, sc, call_callable, term, caller, depth)
                    cur = it.read(q.cell, q.path)
                if not cur.elems:
                    if name == "try_recv":
                        return Adt("std::result::Result", 1, [Opaque("TryRecvError", {"empty"})])
                    raise Undecided("recv on an empty channel (blocks, or fails if every sender is gone)")
                it.write(q.cell, q.path, VecV(list(cur.elems[1:])))
                return Adt("std::result::Result", 0, [cur.elems[0]])

    # ------------------------------------------------------------------ mem
    if path in ("core::mem::swap", "std::mem::swap") and len(args) == 2 and all(isinstance(a, Ref) for a in args):
        a, b = args
        va, vb = it.read(a.cell, a.path), it.read(b.cell, b.path)
        it.write(a.cell, a.path, vb)
        it.write(b.cell, b.path, va)
        return Tup([])
    if path in ("core::mem::replace", "std::mem::replace") and len(args) == 2 and isinstance(args[0], Ref):
        old = it.read(args[0].cell, args[0].path)
        it.write(args[0].cell, args[0].path, args[1])
        return old
    if path in ("core::mem::take", "std::mem::take") and len(args) == 1 and isinstance(args[0], Ref):
        old = it.read(args[0].cell, args[0].path)
        if isinstance(old, VecV):
            it.write(args[0].cell, args[0].path, VecV([]))
            return old
        if isinstance(old, Int):
            it.write(args[0].cell, args[0].path, old.like(val=0))
            return old
        if isinstance(old, Adt) and old.name.endswith("option::Option"):
            it.write(args[0].cell, args[0].path, none())
            return old
    if path in ("core::mem::drop", "std::mem::drop", "core::mem::forget"):
        return Tup([])

    # ------------------------------------------------------------------ integers (inherent methods of the primitive types)
    if path.startswith("core::num::<impl ") and args and isinstance(args[0], Int):
        a = args[0]
        b = args[1] if len(args) > 1 else None
        mx = (1 << a.w) - 1
        if name in ("wrapping_add", "wrapping_sub", "wrapping_mul") and isinstance(b, Int):
            return bv.binop({"wrapping_add": "Add", "wrapping_sub": "Sub", "wrapping_mul": "Mul"}[name], a, b)
        if name in ("wrapping_shl", "wrapping_shr") and _conc(b):
            return bv.binop("Shl" if name == "wrapping_shl" else "Shr", a, a.like(val=b.val % a.w)) if False else \
                bv.binop("Shl" if name == "wrapping_shl" else "Shr", a, Int(b.w, False, val=b.val % a.w))
        if name in ("overflowing_add", "overflowing_sub", "overflowing_mul") and isinstance(b, Int) and not a.signed:
            base = {"overflowing_add": "Add", "overflowing_sub": "Sub", "overflowing_mul": "Mul"}[name]
            r = bv.binop(base, a, b)
            if a.is_conc() and b.is_conc():
                exact = {"Add": a.val + b.val, "Sub": a.val - b.val, "Mul": a.val * b.val}[base]
                return Tup([r, mkbool(exact != r.val)])
            return Tup([r, bv.unknown_bool()])
        if name in ("checked_mul", "checked_div", "checked_rem", "checked_shl", "checked_shr", "checked_pow") and _conc(a) and _conc(b) and not a.signed:
            if name == "checked_mul":
                v = a.val * b.val
                return some(a.like(val=v)) if v <= mx else none()
            if name in ("checked_div", "checked_rem"):
                if b.val == 0:
                    return none()
                return some(a.like(val=a.val // b.val if name == "checked_div" else a.val % b.val))
            if name in ("checked_shl", "checked_shr"):
                if b.val >= a.w:
                    return none()
                return some(a.like(val=(a.val << b.val) & mx if name == "checked_shl" else a.val >> b.val))
            v = pow(a.val, b.val)
            return some(a.like(val=v)) if v <= mx else none()
        if name == "saturating_mul" and _conc(a) and _conc(b) and not a.signed:
            return a.like(val=min(mx, a.val * b.val))
        if name == "abs_diff" and isinstance(b, Int) and not a.signed:
            lt = it.binop("Lt", a, b, "bool")
            return bv.binop("Sub", b, a) if _truth(lt, "abs_diff operand order") else bv.binop("Sub", a, b)
        if name == "div_ceil" and _conc(a) and _conc(b) and not a.signed:
            if b.val == 0:
                raise Diverge("div_ceil by zero")
            return a.like(val=-(-a.val // b.val))
        if name == "next_multiple_of" and _conc(a) and _conc(b) and not a.signed:
            if b.val == 0:
                raise Diverge("next_multiple_of(0)")
            v = -(-a.val // b.val) * b.val
            if v > mx:
                raise Diverge("next_multiple_of overflows")
            return a.like(val=v)
        if name in ("div_euclid", "rem_euclid") and _conc(a) and _conc(b) and not a.signed:
            if b.val == 0:
                raise Diverge("%s by zero" % name)
            return a.like(val=a.val // b.val if name == "div_euclid" else a.val % b.val)
        if name == "is_power_of_two" and _conc(a):
            return mkbool(a.val != 0 and a.val & (a.val - 1) == 0)
        if name == "next_power_of_two" and _conc(a):
            v = 1 if a.val <= 1 else 1 << (a.val - 1).bit_length()
            if v > mx:
                raise Diverge("next_power_of_two overflows")
            return a.like(val=v)
        if name in ("leading_zeros", "trailing_zeros", "leading_ones", "trailing_ones", "count_zeros", "ilog2") and _conc(a):
            v = a.val
            if name == "leading_zeros":
                return Int(32, False, val=a.w - v.bit_length())
            if name == "trailing_zeros":
                return Int(32, False, val=(v & -v).bit_length() - 1 if v else a.w)
            if name == "count_zeros":
                return Int(32, False, val=a.w - bin(v).count("1"))
            if name == "ilog2":
                if v == 0:
                    raise Diverge("ilog2(0)")
                return Int(32, False, val=v.bit_length() - 1)
            inv = (~v) & mx
            if name == "leading_ones":
                return Int(32, False, val=a.w - inv.bit_length())
            return Int(32, False, val=(inv & -inv).bit_length() - 1 if inv else a.w)
        if name == "count_zeros" and not a.is_conc():
            return NotImplemented
        if name in ("min", "max") and isinstance(b, Int):
            c = _ord_of(it, a, b, name)
            return (a if c <= 0 else b) if name == "min" else (b if c <= 0 else a)
        if name == "clamp" and len(args) == 3 and all(isinstance(x, Int) for x in args):
            lo, hi = args[1], args[2]
            if _ord_of(it, a, lo, "clamp") < 0:
                return lo
            if _ord_of(it, a, hi, "clamp") > 0:
                return hi
            return a
        if name in ("to_le", "to_be", "from_le", "from_be") and name in ("to_le", "from_le"):
            return a
        if name in ("to_le_bytes", "to_be_bytes", "to_ne_bytes") and len(args) == 1:
            bits = list(a.getbits())
            bs = [Int(8, False, bits=bits[8 * i: 8 * i + 8]) for i in range(a.w // 8)]
            return Arr(bs if name != "to_be_bytes" else list(reversed(bs)))
        if name in ("MAX", "MIN"):
            return a.like(val=mx if name == "MAX" else 0)
    if path.startswith("core::num::<impl ") and name in ("from_le_bytes", "from_be_bytes", "from_ne_bytes") and len(args) == 1 and isinstance(args[0], Arr) \
            and all(isinstance(e, Int) and e.w == 8 for e in args[0].elems):
        el = list(args[0].elems)
        if name == "from_be_bytes":
            el = list(reversed(el))
        bits = []
        for e in el:
            bits.extend(list(e.getbits()))
        iti = it.int_of_ty(dest_ty)
        if iti and iti[0] == len(bits):
            return Int(iti[0], iti[1], bits=bits)
    if name == "map" and "array::<impl [" in path and len(args) == 2 and isinstance(args[0], Arr):
        return Arr([call_callable(it, args[1], [e], term, caller, depth) for e in args[0].elems])
    if name == "clamp" and tr.endswith("cmp::Ord") and len(args) == 3 and all(isinstance(x, Int) for x in args):
        a, lo, hi = args
        if _ord_of(it, a, lo, "clamp") < 0:
            return lo
        if _ord_of(it, a, hi, "clamp") > 0:
            return hi
        return a
    # bool::then / then_some
    if path in ("core::bool::<impl bool>::then_some", "core::bool::<impl bool>::then") and len(args) == 2 and isinstance(args[0], Int):
        c = _truth(args[0], "bool::%s receiver" % name)
        if not c:
            return none()
        return some(args[1] if name == "then_some" else call_callable(it, args[1], [], term, caller, depth))

    # ------------------------------------------------------------------ Ordering
    if (path.startswith("core::cmp::Ordering") or rpath.startswith("core::cmp::Ordering")) and args:
        o = deref_val(it, args[0])
        if isinstance(o, Adt) and o.variant is not None and not o.fields:
            v = o.variant - 1
            if name in ("is_lt", "is_le", "is_gt", "is_ge", "is_eq", "is_ne"):
                return mkbool({"is_lt": v < 0, "is_le": v <= 0, "is_gt": v > 0, "is_ge": v >= 0, "is_eq": v == 0, "is_ne": v != 0}[name])
            if name == "reverse":
                return Adt(o.name, 2 - o.variant, [])
            if name == "then" and len(args) == 2:
                return o if v != 0 else args[1]
            if name == "then_with" and len(args) == 2:
                return o if v != 0 else call_callable(it, args[1], [], term, caller, depth)

    # ------------------------------------------------------------------ Option (second batch)
    if path.startswith("core::option::Option") and args:
        o = args[0]
        byref = isinstance(o, Ref)
        ov = it.read(o.cell, o.path) if byref else o
        if isinstance(ov, Adt) and ov.name.endswith("option::Option") and ov.variant is not None:
            is_some = ov.variant == 1
            if name in ("as_deref", "as_deref_mut", "as_slice"):
                if not is_some:
                    return none()
                inner = ov.fields[0]
                if byref:
                    return some(Ref(o.cell, tuple(o.path) + (("f", 0),)))
                return some(inner)
            if name == "zip" and len(args) == 2 and isinstance(args[1], Adt) and args[1].variant is not None:
                return some(Tup([ov.fields[0], args[1].fields[0]])) if is_some and args[1].variant == 1 else none()
            if name == "xor" and len(args) == 2 and isinstance(args[1], Adt) and args[1].variant is not None:
                b_some = args[1].variant == 1
                return ov if is_some and not b_some else (args[1] if b_some and not is_some else none())
            if name == "and" and len(args) == 2:
                return args[1] if is_some else none()
            if name == "unwrap_or_default" and is_some:
                return ov.fields[0]
            if name == "unwrap_or_default" and not is_some:
                iti = it.int_of_ty(dest_ty)
                if iti:
                    return Int(iti[0], iti[1], val=0)
                if dest_ty.startswith("std::vec::Vec<") or dest_ty.startswith("std::string::String"):
                    return VecV([])
            if name in ("insert", "replace") and byref and len(args) == 2:
                it.write(o.cell, o.path, some(args[1]))
                if name == "replace":
                    return ov
                return Ref(o.cell, tuple(o.path) + (("f", 0),))
            if name in ("get_or_insert", "get_or_insert_with") and byref and len(args) == 2:
                if not is_some:
                    v = args[1] if name == "get_or_insert" else call_callable(it, args[1], [], term, caller, depth)
                    it.write(o.cell, o.path, some(v))
                return Ref(o.cell, tuple(o.path) + (("f", 0),))
            if name in ("iter", "iter_mut") and byref:
                items = [Ref(o.cell, tuple(o.path) + (("f", 0),))] if is_some else []
                return IterV("owned", (Ref(Cell(VecV(items), "opt-iter")), 0, len(items)))
            if name == "inspect" and len(args) == 2:
                if is_some:
                    call_callable(it, args[1], [Ref(Cell(ov.fields[0], "inspect"))], term, caller, depth)
                return ov
            if name == "flatten" and not byref:
                return ov.fields[0] if is_some else none()
            if name == "unzip" and not byref:
                if is_some and isinstance(ov.fields[0], Tup) and len(ov.fields[0].fields) == 2:
                    return Tup([some(ov.fields[0].fields[0]), some(ov.fields[0].fields[1])])
                if not is_some:
                    return Tup([none(), none()])

    # ------------------------------------------------------------------ Result (second batch)
    if path.startswith("core::result::Result") and args:
        o = args[0]
        ov = it.read(o.cell, o.path) if isinstance(o, Ref) else o
        if isinstance(ov, Adt) and ov.name.endswith("result::Result") and ov.variant is not None:
            ok = ov.variant == 0
            if name == "unwrap_or" and len(args) == 2:
                return ov.fields[0] if ok else args[1]
            if name == "unwrap_or_else" and len(args) == 2:
                return ov.fields[0] if ok else call_callable(it, args[1], [ov.fields[0]], term, caller, depth)
            if name == "map" and len(args) == 2:
                return Adt(ov.name, 0, [call_callable(it, args[1], [ov.fields[0]], term, caller, depth)]) if ok else ov
            if name == "map_err" and len(args) == 2:
                return ov if ok else Adt(ov.name, 1, [call_callable(it, args[1], [ov.fields[0]], term, caller, depth)])
            if name == "and_then" and len(args) == 2:
                return call_callable(it, args[1], [ov.fields[0]], term, caller, depth) if ok else ov
            if name == "err":
                return none() if ok else some(ov.fields[0])
            if name in ("unwrap_err", "expect_err"):
                if ok:
                    raise Diverge("%s on Ok" % name)
                return ov.fields[0]

    # ------------------------------------------------------------------ Vec / slice mutation (second batch)
    is_vec = path.startswith("core::vec::Vec") or rpath.startswith("core::vec::Vec") or path.startswith("smallvec::SmallVec")
    is_slice = "slice::<impl [" in path
    if (is_vec or is_slice) and args and isinstance(args[0], Ref):
        r = args[0]
        sq = seq_of(it, r)
        if sq is not None:
            v, off, n = sq
            whole = isinstance(v, VecV) and off == 0 and n == len(v.elems)

            def put(elems):
                it.write(r.cell, r.path, type(v)(list(v.elems[:off]) + list(elems) + list(v.elems[off + n:])))
            el = list(v.elems[off:off + n])
            if is_vec and whole:
                if name == "insert" and len(args) == 3 and _conc(args[1]):
                    i = args[1].val
                    if i > n:
                        raise Diverge("Vec::insert(%d) on a vector of length %d" % (i, n))
                    it.write(r.cell, r.path, VecV(el[:i] + [args[2]] + el[i:]))
                    return Tup([])
                if name == "remove" and len(args) == 2 and _conc(args[1]):
                    i = args[1].val
                    if i >= n:
                        raise Diverge("Vec::remove(%d) on a vector of length %d" % (i, n))
                    it.write(r.cell, r.path, VecV(el[:i] + el[i + 1:]))
                    return el[i]
                if name == "swap_remove" and len(args) == 2 and _conc(args[1]):
                    i = args[1].val
                    if i >= n:
                        raise Diverge("Vec::swap_remove(%d) on a vector of length %d" % (i, n))
                    x = el[i]
                    el[i] = el[-1]
                    it.write(r.cell, r.path, VecV(el[:-1]))
                    return x
                if name == "truncate" and len(args) == 2 and _conc(args[1]):
                    it.write(r.cell, r.path, VecV(el[:args[1].val]))
                    return Tup([])
                if name == "resize" and len(args) == 3 and _conc(args[1]):
                    m = args[1].val
                    if m > 1 << 16:
                        raise Unsupported("Vec::resize to %d" % m)
                    it.write(r.cell, r.path, VecV(el[:m] + [args[2]] * max(0, m - n)))
                    return Tup([])
                if name == "split_off" and len(args) == 2 and _conc(args[1]):
                    i = args[1].val
                    if i > n:
                        raise Diverge("Vec::split_off(%d) on a vector of length %d" % (i, n))
                    it.write(r.cell, r.path, VecV(el[:i]))
                    return VecV(el[i:])
                if name == "extend_from_slice" and len(args) == 2:
                    s2 = seq_of(it, args[1])
                    if s2 is not None:
                        it.write(r.cell, r.path, VecV(el + list(s2[0].elems[s2[1]:s2[1] + s2[2]])))
                        return Tup([])
                if name == "append" and len(args) == 2 and isinstance(args[1], Ref):
                    o = it.read(args[1].cell, args[1].path)
                    if isinstance(o, VecV):
                        it.write(r.cell, r.path, VecV(el + list(o.elems)))
                        it.write(args[1].cell, args[1].path, VecV([]))
                        return Tup([])
                if name == "drain" and len(args) == 2 and isinstance(args[1], Adt):
                    nm = args[1].name.split("::")[-1]
                    lo, hi = 0, n
                    f = args[1].fields
                    if nm == "Range" and _conc(f[0]) and _conc(f[1]):
                        lo, hi = f[0].val, f[1].val
                    elif nm == "RangeFrom" and _conc(f[0]):
                        lo = f[0].val
                    elif nm == "RangeTo" and _conc(f[0]):
                        hi = f[0].val
                    elif nm != "RangeFull":
                        return NotImplemented
                    if lo > hi or hi > n:
                        raise Diverge("Vec::drain(%d..%d) on a vector of length %d" % (lo, hi, n))
                    it.write(r.cell, r.path, VecV(el[:lo] + el[hi:]))
                    return IterV("owned", (Ref(Cell(VecV(el[lo:hi]), "drained")), 0, hi - lo))
                if name in ("reserve", "reserve_exact", "shrink_to_fit"):
                    return Tup([])
            # slice-level (also reached through Vec's deref)
            if name == "reverse" and len(args) == 1:
                put(list(reversed(el)))
                return Tup([])
            if name == "swap" and len(args) == 3 and _conc(args[1]) and _conc(args[2]):
                i, j = args[1].val, args[2].val
                if i >= n or j >= n:
                    raise Diverge("swap(%d, %d) on a slice of length %d" % (i, j, n))
                el[i], el[j] = el[j], el[i]
                put(el)
                return Tup([])
            if name == "fill" and len(args) == 2:
                put([args[1]] * n)
                return Tup([])
            if name in ("copy_from_slice", "clone_from_slice") and len(args) == 2:
                s2 = seq_of(it, args[1])
                if s2 is not None:
                    if s2[2] != n:
                        raise Diverge("%s: source length %d, destination length %d" % (name, s2[2], n))
                    put(list(s2[0].elems[s2[1]:s2[1] + s2[2]]))
                    return Tup([])
            if name in ("get", "get_mut") and len(args) == 2 and _conc(args[1]):
                i = args[1].val
                return some(Ref(r.cell, tuple(r.path) + (("e", off + i),))) if i < n else none()
            if name in ("get_unchecked", "get_unchecked_mut") and len(args) == 2 and _conc(args[1]):
                i = args[1].val
                if i >= n:
                    raise Diverge("get_unchecked(%d) on a slice of length %d (undefined behaviour)" % (i, n))
                return Ref(r.cell, tuple(r.path) + (("e", off + i),))
            if name in ("first_mut", "last_mut"):
                if n == 0:
                    return none()
                return some(Ref(r.cell, tuple(r.path) + (("e", off + (0 if name == "first_mut" else n - 1)),)))
            if name in ("split_first", "split_last") and len(args) == 1:
                if n == 0:
                    return none()
                if name == "split_first":
                    return some(Tup([Ref(r.cell, tuple(r.path) + (("e", off),)), Ref(r.cell, r.path, off + 1, n - 1)]))
                return some(Tup([Ref(r.cell, tuple(r.path) + (("e", off + n - 1),)), Ref(r.cell, r.path, off, n - 1)]))
            if name in ("starts_with", "ends_with") and len(args) == 2:
                s2 = seq_of(it, args[1])
                if s2 is not None:
                    e2 = list(s2[0].elems[s2[1]:s2[1] + s2[2]])
                    if len(e2) > n:
                        return mkbool(False)
                    part = el[:len(e2)] if name == "starts_with" else el[n - len(e2):]
                    res = True
                    for x, y in zip(part, e2):
                        if not _truth(it.binop("Eq", x, y, "bool"), name):
                            res = False
                            break
                    return mkbool(res)
            if name in ("windows", "chunks_exact", "rchunks") and len(args) == 2 and _conc(args[1]):
                k = args[1].val
                if k == 0:
                    raise Diverge("%s(0)" % name)
                if name == "windows":
                    items = [Ref(r.cell, r.path, off + i, k) for i in range(0, max(0, n - k + 1))]
                elif name == "chunks_exact":
                    items = [Ref(r.cell, r.path, off + i, k) for i in range(0, n - n % k, k)]
                    inner = IterV("owned", (Ref(Cell(VecV(items), name)), 0, len(items)))
                    return IterV("chunks_exact", (inner, Ref(r.cell, r.path, off + n - n % k, n % k)))
                else:
                    items = []
                    e_ = n
                    while e_ > 0:
                        s_ = max(0, e_ - k)
                        items.append(Ref(r.cell, r.path, off + s_, e_ - s_))
                        e_ = s_
                return IterV("owned", (Ref(Cell(VecV(items), name)), 0, len(items)))
            if name == "contains" and len(args) == 2:
                x = args[1]
                return mkbool(any(struct_eq(it, e, deref_val(it, x) if not isinstance(e, Ref) else x) for e in el))
            if name in ("binary_search",) and len(args) == 2:
                x = deref_val(it, args[1])
                lo_, hi_ = 0, n
                while lo_ < hi_:
                    mid = (lo_ + hi_) // 2
                    c = _ord_of(it, el[mid], x, "binary_search")
                    if c == 0:
                        return Adt("std::result::Result", 0, [Int(64, False, val=mid)])
                    if c < 0:
                        lo_ = mid + 1
                    else:
                        hi_ = mid
                return Adt("std::result::Result", 1, [Int(64, False, val=lo_)])
            if name == "partition_point" and len(args) == 2:
                # the library bisects; for a slice that IS partitioned by the predicate the result is the number of leading `true`s.
                # (evaluated on every element: a predicate that is not monotone over the slice makes the result unspecified)
                flags = []
                for i_, e in enumerate(el):
                    r_ = call_callable(it, args[1], [Ref(r.cell, r.path + (("e", off + i_),))], term, caller, depth)
                    if not (isinstance(r_, Int) and r_.is_conc()):
                        raise Undecided("partition_point predicate yields %r" % (r_,))
                    flags.append(bool(r_.val))
                k_ = sum(flags)
                if flags != [True] * k_ + [False] * (n - k_):
                    raise Undecided("partition_point on a slice that is not partitioned by the predicate (result unspecified)")
                return Int(64, False, val=k_)
            if name in ("binary_search_by", "binary_search_by_key") and len(args) in (2, 3):
                ords = []
                for i_, e in enumerate(el):
                    er = Ref(r.cell, r.path + (("e", off + i_),))
                    if name == "binary_search_by":
                        o = call_callable(it, args[1], [er], term, caller, depth)
                        if not (isinstance(o, Adt) and o.variant is not None and not o.fields):
                            raise Undecided("binary_search_by comparator yields %r" % (o,))
                        ords.append(o.variant - 1)
                    else:
                        kv = call_callable(it, args[2], [er], term, caller, depth)
                        ords.append(_ord_of(it, kv, deref_val(it, args[1]), name))
                nl, ne = sum(1 for c in ords if c < 0), sum(1 for c in ords if c == 0)
                if ords != [-1] * nl + [0] * ne + [1] * (n - nl - ne):
                    raise Undecided("%s on a slice that is not ordered with respect to the probe (result unspecified)" % name)
                if ne == 1:
                    return Adt("std::result::Result", 0, [Int(64, False, val=nl)])
                if ne == 0:
                    return Adt("std::result::Result", 1, [Int(64, False, val=nl)])
                raise Undecided("%s with several matching elements (any of them may be returned)" % name)
            if name in ("sort_by_key", "sort_unstable_by_key", "sort_by_cached_key") and len(args) == 2:
                import functools
                keys = [call_callable(it, args[1], [Ref(Cell(e, "sort-item"))], term, caller, depth) for e in el]
                idx = sorted(range(n), key=functools.cmp_to_key(lambda i, j: _ord_of(it, keys[i], keys[j], name)))
                put([el[i] for i in idx])
                return Tup([])
            if name in ("sort_by", "sort_unstable_by") and len(args) == 2:
                import functools

                def cmpf(x, y):
                    o = call_callable(it, args[1], [Ref(Cell(x, "sort-a")), Ref(Cell(y, "sort-b"))], term, caller, depth)
                    if isinstance(o, Adt) and o.variant is not None:
                        return o.variant - 1
                    raise Undecided("sort_by comparator yields %r" % (o,))
                put(sorted(el, key=functools.cmp_to_key(cmpf)))
                return Tup([])
            if name == "concat":
                return NotImplemented
            if name in ("iter", "iter_mut"):
                return NotImplemented

    # ------------------------------------------------------------------ iterator consumers / eager adapters (second batch)
    if tr.endswith("iter::Iterator") or tr.endswith("iterator::Iterator") or tr.endswith("DoubleEndedIterator") or tr.endswith("ExactSizeIterator"):
        src = args[0] if args else None
        by_ref_cell = None
        if isinstance(src, Ref):
            inner = it.read(src.cell, src.path)
            if isinstance(inner, (IterV,)) or (isinstance(inner, Adt) and inner.name.endswith("ops::Range")):
                by_ref_cell = src
                src = inner
        is_it = isinstance(src, IterV) or (isinstance(src, Adt) and src.name.endswith("ops::Range"))
        if is_it:
            def drain(cur, limit=100000):
                out = []
                for _ in range(limit):
                    cur, item = iter_next(it, cur, term, caller, depth)
                    if item.variant == 0:
                        break
                    out.append(item.fields[0])
                return cur, out

            def owned(items, tag):
                return IterV("owned", (Ref(Cell(VecV(items), tag)), 0, len(items)))
            if name in ("fuse", "by_ref") and len(args) == 1:
                return args[0]
            if name in ("min", "max") and len(args) == 1 and by_ref_cell is None:
                _, items = drain(src)
                if not items:
                    return none()
                best = items[0]
                for x in items[1:]:
                    c = _ord_of(it, deref_val(it, x), deref_val(it, best), name)
                    if (name == "min" and c < 0) or (name == "max" and c >= 0):
                        best = x
                return some(best)
            if name in ("min_by_key", "max_by_key") and len(args) == 2 and by_ref_cell is None:
                _, items = drain(src)
                if not items:
                    return none()
                keys = [call_callable(it, args[1], [Ref(Cell(x, "key-item"))], term, caller, depth) for x in items]
                bi = 0
                for i in range(1, len(items)):
                    c = _ord_of(it, keys[i], keys[bi], name)
                    if (name == "min_by_key" and c < 0) or (name == "max_by_key" and c >= 0):
                        bi = i
                return some(items[bi])
            if name in ("min_by", "max_by") and len(args) == 2 and by_ref_cell is None:
                _, items = drain(src)
                if not items:
                    return none()
                best = items[0]
                for x in items[1:]:
                    o = call_callable(it, args[1], [Ref(Cell(x, "cmp-a")), Ref(Cell(best, "cmp-b"))], term, caller, depth)
                    if not (isinstance(o, Adt) and o.variant is not None):
                        raise Undecided("%s comparator yields %r" % (name, o))
                    c = o.variant - 1
                    if (name == "min_by" and c < 0) or (name == "max_by" and c >= 0):
                        best = x
                return some(best)
            if name == "nth" and len(args) == 2 and _conc(args[1]):
                cur = src
                item = none()
                for _ in range(args[1].val + 1):
                    cur, item = iter_next(it, cur, term, caller, depth)
                    if item.variant == 0:
                        break
                if by_ref_cell is not None:
                    it.write(by_ref_cell.cell, by_ref_cell.path, cur)
                return item
            if name in ("take_while", "skip_while", "inspect", "map_while") and len(args) == 2 and by_ref_cell is None:
                _, items = drain(src)
                out = []
                if name == "inspect":
                    for x in items:
                        call_callable(it, args[1], [Ref(Cell(x, "inspect"))], term, caller, depth)
                    return owned(items, "inspect")
                if name == "map_while":
                    for x in items:
                        o = call_callable(it, args[1], [x], term, caller, depth)
                        if not (isinstance(o, Adt) and o.variant is not None):
                            raise Undecided("map_while yields %r" % (o,))
                        if o.variant == 0:
                            break
                        out.append(o.fields[0])
                    return owned(out, "map_while")
                skipping = True
                for x in items:
                    t = _truth(call_callable(it, args[1], [Ref(Cell(x, name))], term, caller, depth), "%s predicate" % name)
                    if name == "take_while":
                        if not t:
                            break
                        out.append(x)
                    else:
                        if skipping and t:
                            continue
                        skipping = False
                        out.append(x)
                return owned(out, name)
            if name == "product" and len(args) == 1 and by_ref_cell is None:
                _, items = drain(src)
                acc = None
                for x in items:
                    x = deref_val(it, x)
                    acc = x if acc is None else bv.binop("Mul", acc, x)
                if acc is None:
                    iti = it.int_of_ty(dest_ty) or (64, False, "int")
                    return Int(iti[0], iti[1], val=1)
                return acc
            if name == "find_map" and len(args) == 2:
                cur = src
                res = none()
                for _ in range(100000):
                    cur, item = iter_next(it, cur, term, caller, depth)
                    if item.variant == 0:
                        break
                    o = call_callable(it, args[1], [item.fields[0]], term, caller, depth)
                    if not (isinstance(o, Adt) and o.variant is not None):
                        raise Undecided("find_map yields %r" % (o,))
                    if o.variant == 1:
                        res = o
                        break
                if by_ref_cell is not None:
                    it.write(by_ref_cell.cell, by_ref_cell.path, cur)
                return res
            if name == "rposition" and len(args) == 2:
                _, items = drain(src)
                for i in range(len(items) - 1, -1, -1):
                    if _truth(call_callable(it, args[1], [items[i]], term, caller, depth), "rposition predicate"):
                        return some(Int(64, False, val=i))
                return none()
            if name in ("unzip", "partition") and by_ref_cell is None:
                _, items = drain(src)
                if name == "unzip":
                    def split_top(ty):
                        ty = ty.strip()
                        if not (ty.startswith("(") and ty.endswith(")")):
                            return None
                        parts, d_, cur_ = [], 0, ""
                        for ch in ty[1:-1]:
                            if ch in "(<[":
                                d_ += 1
                            elif ch in ")>]":
                                d_ -= 1
                            if ch == "," and d_ == 0:
                                parts.append(cur_.strip())
                                cur_ = ""
                            else:
                                cur_ += ch
                        if cur_.strip():
                            parts.append(cur_.strip())
                        return parts

                    def unz(xs, ty):
                        parts = split_top(ty or "")
                        if parts is None or len(parts) != 2:
                            return VecV(xs)
                        if not all(isinstance(x, Tup) and len(x.fields) == 2 for x in xs):
                            raise Undecided("unzip of non-pairs")
                        return Tup([unz([x.fields[0] for x in xs], parts[0]), unz([x.fields[1] for x in xs], parts[1])])
                    if all(isinstance(x, Tup) and len(x.fields) == 2 for x in items):
                        return unz(items, dest_ty)
                    return NotImplemented
                a_, b_ = [], []
                by_val = "Vec<&" not in dest_ty
                for x in items:
                    keep = _truth(call_callable(it, args[1], [Ref(Cell(x, "partition"))], term, caller, depth), "partition predicate")
                    (a_ if keep else b_).append(deref_val(it, x) if by_val and isinstance(x, Ref) else x)
                return Tup([VecV(a_), VecV(b_)])
            if name in ("eq", "ne") and len(args) == 2 and by_ref_cell is None and isinstance(args[1], IterV):
                _, xs = drain(src)
                _, ys = drain(args[1])
                same = len(xs) == len(ys)
                if same:
                    for x, y in zip(xs, ys):
                        if not _truth(it.binop("Eq", deref_val(it, x), deref_val(it, y), "bool"), "Iterator::eq"):
                            same = False
                            break
                return mkbool(same if name == "eq" else not same)
            if name == "len" and len(args) == 1:
                _, items = drain(src)
                return Int(64, False, val=len(items))
            if name == "scan" and len(args) == 3 and by_ref_cell is None:
                _, items = drain(src)
                st = Cell(args[1], "scan-state")
                out = []
                for x in items:
                    o = call_callable(it, args[2], [Ref(st), x], term, caller, depth)
                    if not (isinstance(o, Adt) and o.variant is not None):
                        raise Undecided("scan yields %r" % (o,))
                    if o.variant == 0:
                        break
                    out.append(o.fields[0])
                return owned(out, "scan")
            if name == "reduce" and len(args) == 2 and by_ref_cell is None:
                _, items = drain(src)
                if not items:
                    return none()
                acc = items[0]
                for x in items[1:]:
                    acc = call_callable(it, args[1], [acc, x], term, caller, depth)
                return some(acc)
            if name == "try_for_each" and len(args) == 2:
                cur = src
                res = None
                for _ in range(100000):
                    cur, item = iter_next(it, cur, term, caller, depth)
                    if item.variant == 0:
                        break
                    r_ = call_callable(it, args[1], [item.fields[0]], term, caller, depth)
                    if not (isinstance(r_, Adt) and r_.variant is not None):
                        raise Undecided("try_for_each closure returned %r" % (r_,))
                    stop = (r_.name.endswith("result::Result") and r_.variant == 1) or (r_.name.endswith("option::Option") and r_.variant == 0) or \
                        (r_.name.endswith("ControlFlow") and r_.variant == 1)
                    if stop:
                        res = r_
                        break
                if by_ref_cell is not None:
                    it.write(by_ref_cell.cell, by_ref_cell.path, cur)
                if res is not None:
                    return res
                dty = dest_ty or ""
                if dty.startswith("std::result::Result"):
                    return Adt("std::result::Result", 0, [Tup([])])
                if dty.startswith("std::option::Option"):
                    return some(Tup([]))
                return Adt("std::ops::ControlFlow", 0, [Tup([])])
            if name == "try_fold":
                return NotImplemented
    if name == "remainder" and "ChunksExact" in path and len(args) == 1:
        cv = deref_val(it, args[0])
        if isinstance(cv, IterV) and cv.kind == "chunks_exact":
            return cv.a[1]
    # iter::repeat / once / empty / repeat_n / successors are rare in this crate: not modelled
    if path in ("core::iter::from_fn", "std::iter::from_fn") and len(args) == 1:
        return IterV("from_fn", (args[0],))
    if path in ("core::iter::once", "std::iter::once") and len(args) == 1:
        return IterV("owned", (Ref(Cell(VecV([args[0]]), "once")), 0, 1))
    if path in ("core::iter::empty", "std::iter::empty") and not args:
        return IterV("owned", (Ref(Cell(VecV([]), "empty")), 0, 0))
    if path in ("core::iter::repeat_n", "std::iter::repeat_n") and len(args) == 2 and _conc(args[1]) and args[1].val <= 4096:
        return IterV("owned", (Ref(Cell(VecV([args[0]] * args[1].val), "repeat_n")), 0, args[1].val))

    # ------------------------------------------------------------------ String (vector of chars/bytes)
    if path.startswith("core::string::String") or path.startswith("core::str::<impl str>") or path.startswith("core::str"):
        if name in ("as_str", "as_bytes", "as_mut_str", "borrow", "deref", "as_ref") and len(args) == 1 and isinstance(args[0], Ref):
            return args[0]
        if name in ("trim", "trim_end", "trim_start", "trim_ascii", "trim_ascii_end", "trim_ascii_start") and len(args) == 1 and isinstance(args[0], Ref):
            s2 = seq_of(it, args[0])
            if s2 is not None:
                v_, off_, cnt_ = s2
                el_ = list(v_.elems[off_:off_ + cnt_])
                if all(isinstance(e, Int) and e.is_conc() for e in el_):
                    ws = (9, 10, 11, 12, 13, 32)
                    if any(e.val >= 0x80 for e in el_) and "ascii" not in name:
                        raise M.Undecided("%s of non-ASCII text" % name)
                    a_, b_ = 0, len(el_)
                    if name in ("trim", "trim_end", "trim_ascii", "trim_ascii_end"):
                        while b_ > a_ and el_[b_ - 1].val in ws:
                            b_ -= 1
                    if name in ("trim", "trim_start", "trim_ascii", "trim_ascii_start"):
                        while a_ < b_ and el_[a_].val in ws:
                            a_ += 1
                    base_off = args[0].off if isinstance(args[0].off, int) else (args[0].off.val if isinstance(args[0].off, Int) and args[0].off.is_conc() else None)
                    if base_off is not None:
                        return M.Ref(args[0].cell, args[0].path, base_off + a_, b_ - a_, args[0].tags)
                raise M.Undecided("%s of text whose bytes are not all known" % name)
        if name == "push_str" and len(args) == 2 and isinstance(args[0], Ref):
            tgt = it.read(args[0].cell, args[0].path)
            s2 = seq_of(it, args[1])
            if isinstance(tgt, VecV) and s2 is not None:
                it.write(args[0].cell, args[0].path, VecV(list(tgt.elems) + list(s2[0].elems[s2[1]:s2[1] + s2[2]])))
                return Tup([])
        if name in ("to_string", "to_owned", "into_bytes", "into_boxed_str") and len(args) == 1:
            s2 = seq_of(it, args[0]) if isinstance(args[0], Ref) else None
            if s2 is not None:
                return VecV(list(s2[0].elems[s2[1]:s2[1] + s2[2]]))
            if isinstance(args[0], VecV):
                return args[0]
        if name in ("bytes",) and len(args) == 1 and isinstance(args[0], Ref):
            s_ = seq_of(it, args[0])
            if s_ is not None:
                return IterV("cloned", (IterV("slice", (args[0], 0, s_[2])),))
    if path.startswith("core::str::<impl str>") and args and isinstance(args[0], Ref):
        sq = seq_of(it, args[0])
        if sq is not None:
            v, off, n = sq
            if name == "is_empty" and len(args) == 1:
                return mkbool(n == 0)
            if name == "len" and len(args) == 1:
                return Int(64, False, val=n)
            if name in ("split", "split_terminator") and len(args) == 2:
                # the text is a vector of one-byte characters; the separator is a char predicate (closure / fn) or a char
                pieces, start = [], 0
                for i in range(n):
                    ch = v.elems[off + i]
                    chv = Int(32, False, bits=list(ch.getbits())[:8] + [ZERO] * 24, tags=ch.tags, kind="char") if isinstance(ch, Int) and ch.w == 8 else ch
                    sep = deref_val(it, args[1])
                    if isinstance(sep, Int):
                        is_sep = _truth(it.binop("Eq", chv, sep, "bool"), "separator test")
                    else:
                        is_sep = _truth(call_callable(it, args[1], [chv], term, caller, depth), "separator predicate")
                    if is_sep:
                        pieces.append(Ref(args[0].cell, args[0].path, off + start, i - start))
                        start = i + 1
                if not (name == "split_terminator" and start == n):
                    pieces.append(Ref(args[0].cell, args[0].path, off + start, n - start))
                return IterV("owned", (Ref(Cell(VecV(pieces), "split")), 0, len(pieces)))
    if path in ("core::string::String::from_utf8", "core::str::from_utf8", "core::string::String::from_utf8_unchecked", "core::str::from_utf8_unchecked",
                "core::string::String::from_utf8_lossy") and len(args) == 1:
        # exact only for bytes known to be ASCII: concrete values < 128 or results of the bits_to_ascii table (C16.1: always a letter)
        v = args[0]
        el = v.elems if isinstance(v, VecV) else None
        if el is None and isinstance(v, Ref):
            s2 = seq_of(it, v)
            el = list(s2[0].elems[s2[1]:s2[1] + s2[2]]) if s2 is not None else None
        def ascii_ok(e):
            if not isinstance(e, Int):
                return False
            if e.is_conc():
                return e.val < 128
            if any(t.startswith("r:") or t.startswith("rendered") for t in tags_of(e)):
                return True
            bits = list(e.getbits())
            return len(bits) >= 8 and bits[7] is not TOP and len(bits[7]) == 0      # top bit provably 0: a single-byte character
        if el is None or not all(ascii_ok(e) for e in el):
            return NotImplemented
        if name.endswith("unchecked"):
            return args[0]
        if name == "from_utf8_lossy":
            return NotImplemented
        return Adt("std::result::Result", 0, [args[0]])
    return NotImplemented
