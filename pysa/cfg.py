"""E1 — CFG rule primitives over exported MIR bodies: dominators, reachability, must-pass-through,
natural loops, call-site queries, single-assignment expression reconstruction."""
from .facts import succs, callee_of


class CFG:
    def __init__(self, body):
        self.body = body
        blocks = body["blocks"]
        n = len(blocks)
        self.n = n
        self.succ = [[] for _ in range(n)]
        self.pred = [[] for _ in range(n)]
        for i, bb in enumerate(blocks):
            if bb.get("cleanup"):
                continue
            for s in succs(bb["t"]):
                if s is not None and not blocks[s].get("cleanup"):
                    self.succ[i].append(s)
                    self.pred[s].append(i)
        self.reach0 = self.reachable_from(0)
        self._dom = None
        self._loops = None

    # ---- reachability
    def reachable_from(self, src, removed=frozenset(), removed_edges=frozenset()):
        seen = set()
        if src in removed:
            return seen
        st = [src]
        seen.add(src)
        while st:
            u = st.pop()
            for v in self.succ[u]:
                if v in removed or (u, v) in removed_edges or v in seen:
                    continue
                seen.add(v)
                st.append(v)
        return seen

    def reaches(self, src, dst, removed=frozenset(), removed_edges=frozenset()):
        """is there a path src -> … -> dst (length >= 0) avoiding `removed` blocks (src itself may not be removed)"""
        return dst in self.reachable_from(src, removed, removed_edges)

    def reaches_strict(self, src, dst, removed=frozenset()):
        """path of length >= 1 from src's successors"""
        for s in self.succ[src]:
            if s in removed:
                continue
            if dst in self.reachable_from(s, removed):
                return True
        return False

    def must_pass(self, src, dst, via):
        """every path from src (exclusive) to dst passes through a block in `via` (dst in via counts)"""
        via = set(via)
        if dst in via:
            return True
        return not self.reaches_strict(src, dst, removed=via)

    # ---- dominators (iterative)
    def dom(self):
        if self._dom is not None:
            return self._dom
        n = self.n
        allb = set(self.reach0)
        dom = {b: set(allb) for b in allb}
        dom[0] = {0}
        changed = True
        order = sorted(allb)
        while changed:
            changed = False
            for b in order:
                if b == 0:
                    continue
                ps = [p for p in self.pred[b] if p in allb]
                if not ps:
                    continue
                new = set.intersection(*[dom[p] for p in ps]) | {b}
                if new != dom[b]:
                    dom[b] = new
                    changed = True
        self._dom = dom
        return dom

    def dominates(self, a, b):
        d = self.dom()
        return b in d and a in d[b]

    # ---- natural loops
    def loops(self):
        """list of (header, body-set, latches)"""
        if self._loops is not None:
            return self._loops
        dom = self.dom()
        by_header = {}
        for u in self.reach0:
            for v in self.succ[u]:
                if v in dom.get(u, ()):  # back edge u->v
                    body = {v, u}
                    st = [u]
                    while st:
                        x = st.pop()
                        if x == v:
                            continue
                        for p in self.pred[x]:
                            if p not in body and p in self.reach0:
                                body.add(p)
                                st.append(p)
                    h = by_header.setdefault(v, [set(), set()])
                    h[0] |= body
                    h[1].add(u)
        self._loops = [(h, b, l) for h, (b, l) in sorted(by_header.items())]
        return self._loops

    def loop_of(self, block):
        """innermost loop containing block"""
        best = None
        for h, b, l in self.loops():
            if block in b and (best is None or len(b) < len(best[1])):
                best = (h, b, l)
        return best

    def loop_exits(self, loop):
        h, b, l = loop
        out = []
        for u in b:
            for v in self.succ[u]:
                if v not in b:
                    out.append((u, v))
        return out

    # ---- call sites
    def calls(self, pred=None):
        out = []
        for i, bb in enumerate(self.body["blocks"]):
            if i not in self.reach0:
                continue
            t = bb["t"]
            if t.get("k") == "call":
                fr = callee_of(t)
                if fr is None:
                    if pred is None:
                        out.append((i, t, None))
                    continue
                if pred is None or pred(fr):
                    out.append((i, t, fr))
        return out

    def calls_to(self, *names):
        """call sites whose (resolved or declared) path ends with / equals one of names"""
        def p(fr):
            for nm in names:
                for cand in (fr.get("rpath"), fr.get("path")):
                    if cand and (cand == nm or cand.endswith("::" + nm)):
                        return True
            return False
        return self.calls(p)

    def returns(self):
        return [i for i in self.reach0 if self.body["blocks"][i]["t"]["k"] == "return"]


def fn_name(fr):
    return (fr.get("rpath") or fr.get("path") or "")


def path_matches(fr, *names):
    if fr is None:
        return False
    for nm in names:
        for cand in (fr.get("rpath"), fr.get("path")):
            if cand and (cand == nm or cand.endswith("::" + nm)):
                return True
    return False


# --------------------------------------------------------------------------- expression reconstruction

class Defs:
    """assignments per local (statements and call destinations) of one body"""

    def __init__(self, body):
        self.body = body
        self.defs = {}
        for bi, bb in enumerate(body["blocks"]):
            if bb.get("cleanup"):
                continue
            for si, st in enumerate(bb["s"]):
                if st["k"] == "assign":
                    p = st["p"]
                    self.defs.setdefault(p["l"], []).append(("stmt", bi, si, st, bool(p["p"])))
            t = bb["t"]
            if t.get("k") == "call":
                p = t["dest"]
                self.defs.setdefault(p["l"], []).append(("call", bi, None, t, bool(p["p"])))
        self.names = {}
        for d in body["debug"]:
            if not d["p"]["p"]:
                self.names[d["p"]["l"]] = d["name"]

    def single_def(self, local):
        ds = self.defs.get(local, [])
        whole = [d for d in ds if not d[4]]
        if len(ds) == 1 and len(whole) == 1:
            return whole[0]
        return None

    def expr_local(self, local, depth=0):
        """symbolic expression for a local: expand single-assignment temporaries"""
        argc = self.body["argc"]
        nm = self.names.get(local)
        if 1 <= local <= argc:
            if not self.defs.get(local):
                return ("param", local, nm)
        d = self.single_def(local)
        if d is None or depth > 40:
            return ("var", local, nm)
        if nm is not None and depth > 0 and d[0] == "call":
            pass
        if d[0] == "call":
            t = d[3]
            fr = callee_of(t)
            return ("call", fn_name(fr) if fr else "?", tuple(self.expr_operand(a, depth + 1) for a in t["args"]), local)
        rv = d[3]["rv"]
        return self.expr_rvalue(rv, depth + 1, local)

    def expr_place(self, p, depth=0):
        e = self.expr_local(p["l"], depth)
        for pe in p["p"]:
            if pe == "deref":
                e = ("deref", e)
            elif isinstance(pe, dict) and "f" in pe:
                e = ("field", e, pe["f"])
            elif isinstance(pe, dict) and "idx" in pe:
                e = ("index", e, self.expr_local(pe["idx"], depth + 1))
            elif isinstance(pe, dict) and "cidx" in pe:
                e = ("index", e, ("const", pe["cidx"]))
            elif isinstance(pe, dict) and "downcast" in pe:
                e = ("downcast", e, pe.get("name"))
            else:
                e = ("proj?", e)
        return e

    def expr_operand(self, o, depth=0):
        if "copy" in o or "move" in o:
            return self.expr_place(o.get("copy") or o.get("move"), depth)
        if "const" in o:
            c = o["const"]
            if "int" in c:
                return ("const", c["int"])
            if "fn" in c:
                return ("fn", fn_name(c["fn"]))
            if "struct" in c:
                return ("conststruct", repr(c["struct"].get("adt")), c["struct"].get("variant"))
            return ("const?", c.get("ty"))
        return ("?",)

    def expr_rvalue(self, rv, depth, local=None):
        k = rv["k"]
        if k == "use":
            return self.expr_operand(rv["o"], depth)
        if k == "ref" or k == "rawptr":
            return ("ref", self.expr_place(rv["p"], depth))
        if k == "bin":
            return ("bin", rv["op"], self.expr_operand(rv["a"], depth), self.expr_operand(rv["b"], depth))
        if k == "un":
            return ("un", rv["op"], self.expr_operand(rv["o"], depth))
        if k == "cast":
            return ("cast", rv["ty"], self.expr_operand(rv["o"], depth))
        if k == "discr":
            return ("discr", self.expr_place(rv["p"], depth))
        if k == "agg":
            nm = rv.get("adt") or rv.get("closure") or rv["ak"]
            if rv["ak"] == "adt":
                nm = nm + "::" + rv["vname"]
            return ("agg", nm, tuple(self.expr_operand(o, depth) for o in rv["ops"]))
        return ("rv?", k)


def strip_refs(e):
    """look through references / derefs / copies"""
    while isinstance(e, tuple) and e and e[0] in ("ref", "deref"):
        e = e[1]
    return e


def expr_mentions(e, pred):
    if pred(e):
        return True
    if isinstance(e, tuple):
        for x in e[1:]:
            if isinstance(x, tuple) and expr_mentions(x, pred):
                return True
    return False


def show(e):
    if not isinstance(e, tuple):
        return repr(e)
    k = e[0]
    if k in ("param", "var"):
        return e[2] or "_%d" % e[1]
    if k == "const":
        return str(e[1])
    if k == "bin":
        return "(%s %s %s)" % (show(e[2]), e[1], show(e[3]))
    if k == "call":
        return "%s(%s)" % (e[1].split("::")[-1], ", ".join(show(a) for a in e[2]))
    if k == "field":
        return "%s.%s" % (show(e[1]), e[2])
    if k in ("ref", "deref"):
        return ("&" if k == "ref" else "*") + show(e[1])
    if k == "cast":
        return "(%s as %s)" % (show(e[2]), e[1])
    if k == "agg":
        return "%s{%s}" % (e[1], ", ".join(show(a) for a in e[2]))
    return repr(e)


# --------------------------------------------------------------------------- place typing

def place_types(F, body, place):
    """yield (container_type_before_projection, projection element) walking a place"""
    cur = body["locals"][place["l"]]
    for pe in place["p"]:
        yield cur, pe
        if pe == "deref":
            cur = F.ty(cur).get("t", "?")
        elif isinstance(pe, dict) and "f" in pe:
            cur = pe["ty"]
        elif isinstance(pe, dict) and ("idx" in pe or "cidx" in pe):
            cur = F.ty(cur).get("t", "?")
        elif isinstance(pe, dict) and "downcast" in pe:
            pass


def adt_name(F, tystr):
    t = F.ty(tystr)
    while t.get("k") in ("ref", "ptr"):
        t = F.ty(t["t"])
    if t.get("k") == "adt":
        return t["name"]
    return None
