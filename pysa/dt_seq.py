"""Decision tables with affine indices for sequence views and k-mer iterators
(C12.4, C13.2–C13.5, C15.1–C15.4, C14.5, C08.3, C18)."""
from . import bv, cfg as C
from .bv import Int, mkbool, ZERO, ONE, TOP, var, atom_int, aff_str, aff_of
from .absint import (Adt, Arr, Cell, Closure, Diverge, FnItem, Harness, Interp, Opaque, Ref, Tup, Undecided,
                     Unsupported, VecV, UNINIT, tags_of, with_tags)
from .dt import (BOTTOM, DIR, LEFT, RIGHT, LinOracles, Oracles, dir_name, dir_of, dir_v, explore, flip, is_print_call)
from .dt_tables import EXTS, recv, struct_of
from .models import DequeV, IterV, some, none, deref_val

OPTION = "std::option::Option"


def affs(x):
    """canonical string of an integer's affine form (or repr)"""
    if isinstance(x, Int):
        if x.is_conc():
            return str(x.val)
        if x.aff is not None:
            return aff_str(x.aff)
    return repr(x)


def aff_eq(x, d, c):
    """is integer x the affine form sum(d)+c ?"""
    f = aff_of(x) if isinstance(x, Int) else None
    if f is None:
        return False
    dd = {k: v for k, v in f[0].items() if v != 0}
    want = {k: v for k, v in d.items() if v != 0}
    return dd == want and f[1] == c


def seq_v(name, len_atom):
    return Opaque("Seq", {"seq"}, {"seq": name, "len": len_atom})


def info_of(v):
    return v.info if isinstance(v, Opaque) else {}


class SeqOracles(LinOracles):
    """oracles for abstract sequences / k-mers with affine positions"""

    def __init__(self, script=()):
        LinOracles.__init__(self, script)
        self.calls = []

    def base_tag(self, seq, idx):
        return "base:%s:%s" % (info_of(seq).get("seq"), affs(idx))

    def on_call(self, it, fn, args, dest_ty, term, caller):
        path = fn.get("path", "")
        rpath = fn.get("rpath") or path
        name = path.split("::")[-1]
        tr = fn.get("trait", "")
        if is_print_call(fn):
            return Opaque(dest_ty, {"fmt"})
        if name == "k" and tr == "Kmer":
            return atom_int(64, "K")
        if tr == "Kmer" and name == "empty":
            return Opaque("K", {"kmer"}, {"kmer": "empty"})
        if tr in ("Mer", "Vmer") and args:
            x = recv(it, args[0])
            if isinstance(x, Opaque) and "seq" in x.info:
                if name == "len":
                    self.calls.append(("len", x.info["seq"]))
                    return atom_int(64, x.info["len"])
                if name == "get":
                    self.calls.append(("get", x.info["seq"], affs(args[1])))
                    return Int(8, False, bits=[TOP] * 8, tags=frozenset({self.base_tag(x, args[1])}))
                if name == "get_kmer":
                    self.calls.append(("get_kmer", x.info["seq"], affs(args[1])))
                    return Opaque("K", {"kmer"}, {"kmer": "at:%s:%s" % (x.info["seq"], affs(args[1]))})
                if name in ("first_kmer", "last_kmer", "term_kmer") and "no-default" in x.tags:
                    self.calls.append((name, x.info["seq"]))
                    return Opaque("K", {"kmer"}, {"kmer": "%s:%s" % (name, x.info["seq"])})
            if isinstance(x, Opaque) and "kmer" in x.info:
                if name == "rc":
                    return Opaque("K", {"kmer"}, {"kmer": "rc(%s)" % x.info["kmer"]})
        if tr == "Kmer" and name in ("extend_right", "extend_left") and args:
            k = recv(it, args[0])
            b = [t for t in tags_of(args[1]) if t.startswith("base:")]
            bt = b[0] if b else (str(args[1].val) if isinstance(args[1], Int) and args[1].is_conc() else "?")
            return Opaque("K", {"kmer"}, {"kmer": "%s(%s,%s)" % (name, info_of(k).get("kmer"), bt)})
        if path in ("Exts::mk_left", "Exts::mk_right"):
            b = [t for t in tags_of(args[0]) if t.startswith("base:")]
            bt = b[0] if b else (str(args[0].val) if isinstance(args[0], Int) and args[0].is_conc() else "?")
            return Opaque(EXTS, {"exts"}, {"exts": "%s(%s)" % (name, bt)})
        if path == "Exts::merge":
            return Opaque(EXTS, {"exts"}, {"exts": "merge(%s,%s)" % (info_of(args[0]).get("exts"), info_of(args[1]).get("exts"))})
        if path == "complement" and args and isinstance(args[0], Int):
            b = [t for t in tags_of(args[0]) if t.startswith("base:")]
            return Int(8, False, bits=[TOP] * 8, tags=frozenset({"compl(%s)" % (b[0] if b else "?")}))
        return NotImplemented


def run_rows(F, rep, rule, key, body, mk_args, check_row, describe, mk_h=None, setup=None):
    """explore `body` with SeqOracles; check_row(h, out, cells) -> list of problem strings / ('inc', msg)"""
    problems = []
    inconc = []
    rows = [0]

    def mk(script):
        h = (mk_h or SeqOracles)(script)
        if setup:
            setup(h)
        return h

    def run(h):
        it = Interp(F, False, h)
        args, cells = mk_args(h)
        h.cells = cells
        h.it = it
        return it.call_body(body, args)
    try:
        leaves = explore(mk, run, max_runs=5000)
    except Unsupported as e:
        rep.inconclusive(rule, key, "%s: %s" % (describe, e))
        return
    for a, out, h in leaves:
        rows[0] += 1
        rep.evaluations += 1
        preds = [n for n, _ in h.obs.get("cmp", [])]
        pv = {n: v for n, v in h.obs.get("cmp", [])}
        if isinstance(out, tuple) and out and out[0] == "inconclusive":
            inconc.append("%s [when %s]" % (out[1], pv))
            continue
        res = check_row(h, out, h.cells)
        for r in res or []:
            if isinstance(r, tuple) and r[0] == "inc":
                inconc.append(r[1])
            else:
                problems.append((r, pv))
    if problems:
        msg, pv = problems[0]
        rep.violated(rule, key, "%s: %s  [case %s]" % (describe, msg, pv or "{}"), site=F.site(body, body["line"]),
                     witness={"kind": "row", "row": {k: str(v) for k, v in pv.items()}, "problem": msg, "count": len(problems)})
    elif inconc:
        rep.inconclusive(rule, key, "%s: %s" % (describe, inconc[0]))
    else:
        rep.holds(rule, key, "%s (%d cases)" % (describe, rows[0]), sample={"cases": rows[0]})


def get_fn(F, path):
    b = F.fns.get(path)
    if b is None:
        raise Unsupported("anchor-missing: %s" % path)
    return b


def anchor(F, rep, rule, key, path):
    b = F.fns.get(path)
    if b is None:
        rep.violated(rule, key, "anchor-missing: function %s" % path, witness={"kind": "anchor-missing"})
    return b


def is_diverge(out):
    return isinstance(out, tuple) and out and out[0] == "diverge"


# =========================================================================== C13.2 / C13.3 k-mer iterators

def _end_by_witness(h, out):
    """the code decided yield / end without comparing pos with len directly: look for small (pos, len, K) that satisfy everything the
    code did test on this path (and the struct invariant pos >= K >= 1) but for which `pos <= len` disagrees with what it returned"""
    if not (isinstance(out, Adt) and out.variant in (0, 1)):
        return [("inc", "next() returned %r" % (out,))]
    yields = out.variant == 1
    try:
        env = h.find_model(["p", "n", "K"], lambda e: (e["p"] <= e["n"]) != yields, bound=6, extra=lambda e: e["K"] >= 1 and e["p"] >= e["K"])
    except Exception as e:
        return [("inc", "the end test does not compare pos with the sequence length (%s)" % e)]
    if env is not None:
        return ["with pos = %d, len = %d, K = %d (k-mer index %d of a sequence holding %d k-mers) the iterator %s; it must %s" % (
            env["p"], env["n"], env["K"], env["p"] - env["K"], max(0, env["n"] - env["K"] + 1),
            "yields an item" if yields else "ends", "end" if yields else "yield")]
    return []


def kmer_iter_tables(F, rep, rule="C13.2"):
    # ---- KmerIter::next
    body = anchor(F, rep, rule, "KmerIter::next", "<KmerIter<'a, K, D> as std::iter::Iterator>::next")
    if body is not None:
        def mk_args(h):
            st = struct_of(F, "KmerIter", {"bases": Ref(Cell(seq_v("s", "n"), "bases")), "kmer": Opaque("K", {"kmer"}, {"kmer": "cur"}),
                                            "pos": atom_int(64, "p")})
            cell = Cell(st, "self")
            return [Ref(cell)], {"self": cell}

        def check(h, out, cells):
            if is_diverge(out):
                return ["next() diverges: %s" % out[1]]
            names = [f["name"] for f in F.adts["KmerIter"]["variants"][0]["fields"]]
            st = cells["self"].v
            pos2, kmer2 = st.fields[names.index("pos")], st.fields[names.index("kmer")]
            le = h.truth("Le", {"p": 1, "n": -1}, 0)
            lt = h.truth("Lt", {"p": 1, "n": -1}, 0)
            pr = []
            if le is None:
                return _end_by_witness(h, out)
            if le:
                if not (isinstance(out, Adt) and out.variant == 1 and info_of(out.fields[0]).get("kmer") == "cur"):
                    pr.append("with pos <= len the iterator must yield the current k-mer, it returns %r" % (out,))
                if not aff_eq(pos2, {"p": 1}, 1):
                    pr.append("pos advances to %s instead of pos+1" % affs(pos2))
                if lt:
                    want = "extend_right(cur,base:s:p)"
                    if info_of(kmer2).get("kmer") != want:
                        pr.append("the next k-mer is %s; rolling by one base requires %s" % (info_of(kmer2).get("kmer"), want))
            else:
                if not (isinstance(out, Adt) and out.variant == 0):
                    pr.append("with pos > len the iterator must end, it returns %r" % (out,))
                if not (aff_eq(pos2, {"p": 1}, 0) or h.truth("Gt", {"p": 1, "n": -1}, 0)):
                    pr.append("pos changes after the end")
            return pr
        run_rows(F, rep, rule, "KmerIter::next", body, mk_args, check,
                 "KmerIter::next yields while pos <= len, rolls by extend_right(bases[pos]) and advances pos by one")
    # ---- KmerExtsIter::next
    body = anchor(F, rep, "C13.3", "KmerExtsIter::next", "<KmerExtsIter<'a, K, D> as std::iter::Iterator>::next")
    if body is not None:
        def mk_args2(h):
            st = struct_of(F, "KmerExtsIter", {"bases": Ref(Cell(seq_v("s", "n"), "bases")), "kmer": Opaque("K", {"kmer"}, {"kmer": "cur"}),
                                                "exts": Opaque(EXTS, {"exts"}, {"exts": "caller"}), "pos": atom_int(64, "p")})
            cell = Cell(st, "self")
            return [Ref(cell)], {"self": cell}

        def check2(h, out, cells):
            if is_diverge(out):
                return ["next() diverges: %s" % out[1]]
            names = [f["name"] for f in F.adts["KmerExtsIter"]["variants"][0]["fields"]]
            st = cells["self"].v
            pos2, kmer2 = st.fields[names.index("pos")], st.fields[names.index("kmer")]
            le = h.truth("Le", {"p": 1, "n": -1}, 0)
            lt = h.truth("Lt", {"p": 1, "n": -1}, 0)
            first = h.truth("Eq", {"p": 1, "K": -1}, 0)
            if le is None:
                return _end_by_witness(h, out)
            pr = []
            if not le:
                if not (isinstance(out, Adt) and out.variant == 0):
                    pr.append("with pos > len the iterator must end")
                return pr
            if not (isinstance(out, Adt) and out.variant == 1 and isinstance(out.fields[0], Tup)):
                return ["with pos <= len the iterator must yield, it returns %r" % (out,)]
            k, e = out.fields[0].fields
            if info_of(k).get("kmer") != "cur":
                pr.append("the yielded k-mer is %s, not the current one" % info_of(k).get("kmer"))
            if first is None or lt is None:
                return pr + [("inc", "left/right boundary tests (pos == K, pos < len) were not both decided: %s" % h.obs.get("cmp"))]
            left = "caller" if first else "mk_left(base:s:-K+p-1)"
            right = "mk_right(base:s:p)" if lt else "caller"
            got = info_of(e).get("exts")
            alt_left = "mk_left(base:s:%s)" % aff_str(((("K", -1), ("p", 1)), -1))
            if got not in ("merge(%s,%s)" % (left, right), "merge(%s,%s)" % (alt_left if not first else left, right)):
                pr.append("the yielded extensions are %s; required merge(%s, %s): the caller's boundary extensions only at the two sequence ends, "
                          "otherwise the flanking bases" % (got, alt_left if not first else left, right))
            if not aff_eq(pos2, {"p": 1}, 1):
                pr.append("pos advances to %s instead of pos+1" % affs(pos2))
            if lt and info_of(kmer2).get("kmer") != "extend_right(cur,base:s:p)":
                pr.append("the next k-mer is %s; required extend_right(cur, base:s:p)" % info_of(kmer2).get("kmer"))
            return pr
        run_rows(F, rep, "C13.3", "KmerExtsIter::next", body, mk_args2, check2,
                 "KmerExtsIter::next pairs each k-mer with its flanking bases and uses the caller's extensions only at the two ends")
    # ---- constructors
    for fname, adt in (("Vmer::iter_kmers", "KmerIter"), ("Vmer::iter_kmer_exts", "KmerExtsIter")):
        body = anchor(F, rep, rule, fname, fname)
        if body is None:
            continue

        def mk_args3(h, fname=fname):
            s = seq_v("s", "n")
            a = [Ref(Cell(s, "self"))]
            if fname.endswith("exts"):
                a.append(Opaque(EXTS, {"exts"}, {"exts": "caller"}))
            return a, {}

        def check3(h, out, cells, adt=adt):
            if is_diverge(out):
                return ["diverges: %s" % out[1]]
            names = [f["name"] for f in F.adts[adt]["variants"][0]["fields"]]
            if not (isinstance(out, Adt) and out.name == adt):
                return [("inc", "result %r" % (out,))]
            pos, kmer = out.fields[names.index("pos")], out.fields[names.index("kmer")]
            ge = h.truth("Ge", {"n": 1, "K": -1}, 0)
            pr = []
            if not aff_eq(pos, {"K": 1}, 0):
                pr.append("iteration starts at pos = %s instead of K" % affs(pos))
            if ge is None:
                pr.append(("inc", "length is not compared with K"))
            elif ge and info_of(kmer).get("kmer") != "at:s:0":
                pr.append("the first k-mer is %s instead of the k-mer at position 0" % info_of(kmer).get("kmer"))
            if adt == "KmerExtsIter" and info_of(out.fields[names.index("exts")]).get("exts") != "caller":
                pr.append("the caller's boundary extensions are not stored")
            return pr
        run_rows(F, rep, rule, fname, body, mk_args3, check3, "%s starts at pos = K with the k-mer at 0 (when the sequence is long enough)" % fname)


def kmer_iter_override_table(F, rep, rule="C13.2"):
    """Overridden provided methods of the k-mer iterators (fold, for_each, count, last, nth): each must behave as the default built on
    next().  Differential and representation-independent: the iterator is made by interpreting `iter_kmers` / `iter_kmer_exts` on a small
    scripted sequence (4 k-mers, K = 3), advanced by interpreting next() a times, and the override is run on that state; what it hands out
    must be what next() hands out from there."""
    K, N = 3, 4
    L = N + K - 1

    class H(Oracles):
        def __init__(self):
            Oracles.__init__(self, [])
            self.items = []

        def on_call(self, it, fn, args, dest_ty, term, caller):
            path = fn.get("path", "")
            name = path.split("::")[-1]
            tr = fn.get("trait", "") or ""
            if is_print_call(fn):
                return Opaque(dest_ty, {"fmt"})
            if name == "k" and tr == "Kmer":
                return Int(64, False, val=K)
            if tr == "Kmer" and name == "empty":
                return Opaque("K", {"kmer"}, {"at": "empty"})
            if tr in ("Mer", "Vmer") and args and isinstance(recv(it, args[0]), Opaque) and "the-seq" in tags_of(recv(it, args[0])):
                if name == "len":
                    return Int(64, False, val=L)
                if name == "get":
                    i = args[1].val if isinstance(args[1], Int) and args[1].is_conc() else None
                    if i is None or i >= L:
                        raise Diverge("base %r of a sequence of %d bases" % (args[1], L))
                    return Int(8, False, bits=[TOP, TOP] + [ZERO] * 6, tags=frozenset({"b:%d" % i}))       # a base: 0..3
                if name in ("get_kmer", "first_kmer", "last_kmer"):
                    i = 0 if name == "first_kmer" else (N - 1 if name == "last_kmer" else (args[1].val if isinstance(args[1], Int) and args[1].is_conc() else None))
                    if i is None or i >= N:
                        raise Diverge("k-mer %r of a sequence of %d k-mers" % (args[1] if len(args) > 1 else name, N))
                    return Opaque("K", {"kmer"}, {"at": i})
            if tr == "Kmer" and name == "extend_right":
                k = recv(it, args[0])
                b = [t for t in tags_of(args[1]) if t.startswith("b:")]
                at = k.info.get("at") if isinstance(k, Opaque) else None
                if isinstance(at, int) and b and int(b[0][2:]) == at + K:
                    return Opaque("K", {"kmer"}, {"at": at + 1})
                return Opaque("K", {"kmer"}, {"at": "extend_right(k-mer %s, base %s)" % (at, b[0][2:] if b else "?")})
            if path in ("Exts::mk_left", "Exts::mk_right") and len(args) == 1:
                b = [t for t in tags_of(args[0]) if t.startswith("b:")]
                return Opaque(EXTS, {"exts"}, {"exts": "%s(%s)" % (name, b[0][2:] if b else "?")})
            if path == "Exts::merge" and len(args) == 2:
                a, b = args
                return Opaque(EXTS, {"exts"}, {"exts": "merge(%s,%s)" % (info_of(a).get("exts"), info_of(b).get("exts"))})
            if name in ("call", "call_mut", "call_once") and args and isinstance(recv(it, args[0]), Opaque) and "callback" in tags_of(recv(it, args[0])):
                tup = args[1]
                vals = list(tup.fields) if isinstance(tup, Tup) else [tup]
                self.items.append(show(vals[-1]))
                return Int(64, False, val=len(self.items)) if len(vals) == 2 else Tup([])
            return NotImplemented

    def show(v):
        if isinstance(v, Tup):
            return tuple(show(x) for x in v.fields)
        if isinstance(v, Opaque) and "at" in v.info:
            return ("k-mer", v.info["at"])
        if isinstance(v, Opaque) and "exts" in v.info:
            return ("exts", v.info["exts"])
        return repr(v)

    for adt, ctor in (("KmerIter", "Vmer::iter_kmers"), ("KmerExtsIter", "Vmer::iter_kmer_exts")):
        def ctor_args(adt=adt):
            args = [Ref(Cell(Opaque("D", {"the-seq"}), "seq"))]
            if adt == "KmerExtsIter":
                args.append(Opaque(EXTS, {"exts"}, {"exts": "caller"}))
            return args
        _override_rows(F, rep, rule, adt, "<%s<'a, K, D> as std::iter::Iterator>::" % adt, F.fns.get(ctor), ctor_args, H, show, N,
                       "sequence of %d k-mers, K = %d" % (N, K))


def node_iter_override_table(F, rep, rule="C18.9"):
    """the same for the iterators over the nodes of a graph (`iter_nodes()`, `for n in &graph`) on a graph of 4 nodes"""
    N = 4

    class H(Oracles):
        def __init__(self):
            Oracles.__init__(self, [])
            self.items = []

        def on_call(self, it, fn, args, dest_ty, term, caller):
            path = fn.get("path", "")
            name = path.split("::")[-1]
            if is_print_call(fn):
                return Opaque(dest_ty, {"fmt"})
            if (path.startswith("graph::DebruijnGraph") or path.startswith("graph::BaseGraph")) and name == "len":
                return Int(64, False, val=N)
            if "PackedDnaStringSet" in path and name == "get" and len(args) == 2:
                i = args[1].val if isinstance(args[1], Int) and args[1].is_conc() else None
                if i is None or i >= N:
                    raise Diverge("sequence %r of a graph of %d nodes" % (args[1], N))
                return Opaque("DnaStringSlice", {"seq"}, {"node-seq": i})
            if name in ("call", "call_mut", "call_once") and args and isinstance(recv(it, args[0]), Opaque) and "callback" in tags_of(recv(it, args[0])):
                tup = args[1]
                vals = list(tup.fields) if isinstance(tup, Tup) else [tup]
                self.items.append(show(vals[-1]))
                return Int(64, False, val=len(self.items)) if len(vals) == 2 else Tup([])
            return NotImplemented

    def show(v):
        if isinstance(v, Adt):
            ids = [f.val for f in v.fields if isinstance(f, Int) and f.is_conc()] + \
                  ["seq-of-node-%s" % f.info["node-seq"] for f in v.fields if isinstance(f, Opaque) and "node-seq" in f.info]
            return (v.name.split("::")[-1], tuple(ids))
        return repr(v)

    def ctor_args():
        return [Ref(Cell(Opaque("graph::DebruijnGraph", {"the-graph"}), "graph"))]
    for adt, ctor in (("graph::NodeIter", "graph::DebruijnGraph::<K, D>::iter_nodes"),
                      ("graph::NodeIntoIter", "<&'a graph::DebruijnGraph<K, D> as std::iter::IntoIterator>::into_iter")):
        _override_rows(F, rep, rule, adt.split("::")[-1], "<%s<'a, K, D> as std::iter::Iterator>::" % adt, F.fns.get(ctor), ctor_args, H, show, N, "graph of %d nodes" % N)


def _override_rows(F, rep, rule, adt, pre, cbody, ctor_args, H, show, N, what):
    if True:
        over = {k[len(pre):]: b for k, b in F.fns.items() if k.startswith(pre) and "{closure" not in k and "::" not in k[len(pre):]}
        nxt = over.pop("next", None)
        over.pop("size_hint", None)
        if not over:
            return
        if nxt is None or cbody is None:
            rep.inconclusive(rule, adt + "/overrides", "%s overrides %s; its constructor / next() could not be located" % (adt, sorted(over)))
            return

        def fresh(h, a):
            it = Interp(F, False, h)
            cell = Cell(it.call_body(cbody, ctor_args()), "iter")
            got = []
            for _ in range(a):
                r = it.call_body(nxt, [Ref(cell)])
                got.append(r)
            return it, cell, got

        def drain(it, cell):
            out = []
            for _ in range(N + 3):
                r = it.call_body(nxt, [Ref(cell)])
                if not (isinstance(r, Adt) and r.variant in (0, 1)):
                    raise Undecided("next() returned %r" % (r,))
                if r.variant == 0:
                    return out
                out.append(show(r.fields[0]))
            raise Undecided("next() does not end")
        for m, body in sorted(over.items()):
            key = "%s::%s" % (adt, m)
            if m not in ("fold", "for_each", "count", "last", "nth"):
                rep.inconclusive(rule, key, "%s overrides Iterator::%s; no table relates it to next()" % (adt, m))
                continue
            problems, inc = [], []
            for a in range(0, N + 2):
                try:
                    it0, cell0, _ = fresh(H(), a)
                    want = drain(it0, cell0)
                except (Undecided, Unsupported, Diverge) as e:
                    inc.append("reference iteration from cursor %d: %s" % (a, e))
                    continue
                for j in (range(0, N + 2) if m == "nth" else (None,)):
                    h = H()
                    rep.evaluations += 1
                    try:
                        it, cell, _ = fresh(h, a)
                        me = cell.v
                        cb = Opaque("F", {"callback"})
                        args = {"fold": [me, Int(64, False, val=0), cb], "for_each": [me, cb], "count": [me], "last": [me], "nth": [Ref(cell), Int(64, False, val=j or 0)]}[m]
                        r = it.call_body(body, args)
                        where = "after %d item(s)" % a
                        if m in ("fold", "for_each"):
                            if h.items != want:
                                problems.append("%s, %s hands out %s; next() from there hands out %s" % (where, m, h.items, want))
                        elif m == "count":
                            if not (isinstance(r, Int) and r.is_conc() and r.val == len(want)):
                                problems.append("%s, count() is %r; %d item(s) remain" % (where, r, len(want)))
                        elif m == "last":
                            got = show(r.fields[0]) if isinstance(r, Adt) and r.variant == 1 else (None if isinstance(r, Adt) and r.variant == 0 else repr(r))
                            if got != (want[-1] if want else None):
                                problems.append("%s, last() is %s; next() from there ends with %s" % (where, got, want[-1] if want else None))
                        else:
                            got = show(r.fields[0]) if isinstance(r, Adt) and r.variant == 1 else (None if isinstance(r, Adt) and r.variant == 0 else repr(r))
                            exp = want[j] if j < len(want) else None
                            if got != exp:
                                problems.append("%s, nth(%d) is %s; the item %d steps on is %s" % (where, j, got, j, exp))
                            else:
                                rest = drain(it, cell)
                                if rest != want[j + 1:]:
                                    problems.append("%s and nth(%d), the iteration continues with %s instead of %s" % (where, j, rest, want[j + 1:]))
                    except (Undecided, Unsupported) as e:
                        inc.append("%s from cursor %d: %s" % (m, a, e))
                    except Diverge as e:
                        problems.append("after %d item(s), %s%s panics: %s" % (a, m, "(%d)" % j if j is not None else "", e))
            if problems:
                rep.violated(rule, key, "%s overrides Iterator::%s (%s): %s" % (adt, m, what, problems[0]), site=F.site(body, body["line"]),
                             witness={"kind": "row", "count": len(problems)})
            elif inc:
                rep.inconclusive(rule, key, "%s overrides Iterator::%s: %s" % (adt, m, inc[0]))
            else:
                rep.holds(rule, key, "the overridden %s agrees with next() from every cursor 0..%d (%s)" % (m, N + 1, what))



# =========================================================================== C13.4 / C13.5 accessors

def accessor_tables(F, rep, rule="C13.4"):
    for fname, want in (("Vmer::first_kmer", "0"), ("Vmer::last_kmer", "-K+n")):
        body = anchor(F, rep, rule, fname, fname)
        if body is None:
            continue

        def check(h, out, cells, want=want, fname=fname):
            if is_diverge(out):
                return ["diverges: %s" % out[1]]
            got = info_of(out).get("kmer")
            return [] if got == "at:s:%s" % want else ["%s reads the k-mer at position %s; required %s" % (fname, got, want)]
        run_rows(F, rep, rule, fname, body, lambda h: ([Ref(Cell(seq_v("s", "n"), "self"))], {}), check,
                 "%s = get_kmer(%s)" % (fname, "0" if want == "0" else "len - K"))
    body = anchor(F, rep, rule, "Vmer::term_kmer", "Vmer::term_kmer")
    if body is not None:
        for d in (LEFT, RIGHT):
            def check2(h, out, cells, d=d):
                if is_diverge(out):
                    return ["diverges: %s" % out[1]]
                got = info_of(out).get("kmer")
                want = "at:s:0" if d == LEFT else "at:s:-K+n"
                return [] if got == want else ["term_kmer(%s) is %s; required %s" % (dir_name(d), got, want)]
            run_rows(F, rep, rule, "Vmer::term_kmer/%s" % dir_name(d), body, lambda h, d=d: ([Ref(Cell(seq_v("s", "n"), "self")), dir_v(d)], {}), check2,
                     "term_kmer(%s) is the %s k-mer" % (dir_name(d), "first" if d == LEFT else "last"))
    # byte containers
    for adt in ("DnaBytes", "DnaSlice"):
        path = "<%s as Vmer>::get_kmer" % (adt if adt == "DnaBytes" else "DnaSlice<'a>")
        body = anchor(F, rep, "C13.5", path, path)
        if body is None:
            continue

        class H(SeqOracles):
            def on_call(self, it, fn, args, dest_ty, term, caller):
                p = fn.get("path", "")
                nm = p.split("::")[-1]
                if nm == "from_bytes" and fn.get("trait") == "Kmer":
                    sl = args[0]
                    self.calls.append(("from_bytes", info_of(recv(it, sl)).get("range") if not isinstance(sl, Ref) else (affs(sl.off) if isinstance(sl.off, Int) else sl.off, affs(sl.len) if isinstance(sl.len, Int) else sl.len)))
                    return Opaque("K", {"kmer"}, {"kmer": "from_bytes"})
                return SeqOracles.on_call(self, it, fn, args, dest_ty, term, caller)

            def opaque_index(self, it, v, idx, base):
                if isinstance(idx, Adt) and idx.name.endswith("ops::Range"):
                    s, e = idx.fields
                    ln = bv.binop("Sub", e, s)
                    return Ref(Cell(Opaque("[u8]", {"bytes"}), "bytes"), (), s, ln)
                return None

        def mk_args4(h, adt=adt):
            inner = Opaque("Vec<u8>", {"bytes"}) if adt == "DnaBytes" else Ref(Cell(Opaque("[u8]", {"bytes"}), "bytes"))
            me = Adt(adt, 0, [inner])
            return [Ref(Cell(me, "self")), atom_int(64, "pos")], {}

        def check4(h, out, cells):
            if is_diverge(out):
                return ["diverges: %s" % out[1]]
            fb = [c for c in h.calls if c[0] == "from_bytes"]
            if len(fb) != 1:
                return [("inc", "from_bytes not reached exactly once: %s" % h.calls)]
            rng = fb[0][1]
            if rng != ("pos", "K"):
                return ["the k-mer is built from bytes starting at %s, length %s; required start pos, length K" % rng]
            return []
        run_rows(F, rep, "C13.5", path, body, mk_args4, check4, "%s::get_kmer(pos) = from_bytes(bytes[pos .. pos+K])" % adt, mk_h=H)


# =========================================================================== slice views (C12.4 / C15.4 / C14.5)

SLICE = "dna_string::DnaStringSlice"


def mk_slice(is_rc, start="s", length="l", backing="back"):
    return Adt(SLICE, 0, [Ref(Cell(Opaque("DnaString", {"dnastring"}, {"seq": backing, "len": "N"}), backing)),
                           atom_int(64, start), atom_int(64, length), mkbool(is_rc)])


def slice_fields(F, v):
    names = [f["name"] for f in F.adts[SLICE]["variants"][0]["fields"]]
    return {n: v.fields[i] for i, n in enumerate(names)}


def slice_view_tables(F, rep, rule="C12.4"):
    # the harness relies on the declared field order (dna_string, start, length, is_rc)
    names = [f["name"] for f in F.adts.get(SLICE, {"variants": [{"fields": []}]})["variants"][0]["fields"]]
    if names != ["dna_string", "start", "length", "is_rc"]:
        rep.violated(rule, "DnaStringSlice/fields", "anchor-missing: DnaStringSlice fields are %s" % names, witness={"kind": "anchor-missing"})
        return
    # ---- get
    body = anchor(F, rep, rule, "slice.get", "<dna_string::DnaStringSlice<'a> as Mer>::get")
    if body is not None:
        for rc in (False, True):
            def check(h, out, cells, rc=rc):
                if is_diverge(out):
                    return ["diverges: %s" % out[1]]
                gets = [c for c in h.calls if c[0] == "get"]
                if len(gets) != 1:
                    return [("inc", "backing reads: %s" % h.calls)]
                idx = gets[0][2]
                want = aff_str(bv.aff_pack({"i": 1, "s": 1}, 0)) if not rc else aff_str(bv.aff_pack({"s": 1, "l": 1, "i": -1}, -1))
                pr = []
                if idx != want:
                    pr.append("base i of a %s view is read from backing position %s; required %s" % ("reverse-complemented" if rc else "forward", idx, want))
                t = tags_of(out)
                if rc and not any(x.startswith("compl(") for x in t):
                    pr.append("the base of a reverse-complemented view is not complemented")
                if not rc and any(x.startswith("compl(") for x in t):
                    pr.append("the base of a forward view is complemented")
                return pr
            run_rows(F, rep, rule, "slice.get/rc=%s" % rc, body, lambda h, rc=rc: ([Ref(Cell(mk_slice(rc), "self")), atom_int(64, "i")], {}), check,
                     "DnaStringSlice::get(i), is_rc=%s" % rc)
    # ---- get_kmer
    body = anchor(F, rep, rule, "slice.get_kmer", "<dna_string::DnaStringSlice<'a> as Vmer>::get_kmer")
    if body is not None:
        for rc in (False, True):
            def check(h, out, cells, rc=rc):
                if is_diverge(out):
                    return ["diverges: %s" % out[1]]
                got = info_of(out).get("kmer")
                want = "at:back:%s" % aff_str(bv.aff_pack({"pos": 1, "s": 1}, 0)) if not rc else \
                    "rc(at:back:%s)" % aff_str(bv.aff_pack({"s": 1, "l": 1, "K": -1, "pos": -1}, 0))
                return [] if got == want else ["k-mer pos of a %s view is %s; required %s" % ("reverse-complemented" if rc else "forward", got, want)]
            run_rows(F, rep, rule, "slice.get_kmer/rc=%s" % rc, body, lambda h, rc=rc: ([Ref(Cell(mk_slice(rc), "self")), atom_int(64, "pos")], {}), check,
                     "DnaStringSlice::get_kmer(pos), is_rc=%s" % rc)
    # ---- rc()
    body = anchor(F, rep, rule, "slice.rc", "<dna_string::DnaStringSlice<'a> as Mer>::rc")
    if body is not None:
        for rc in (False, True):
            def check(h, out, cells, rc=rc):
                if not (isinstance(out, Adt) and out.name == SLICE):
                    return [("inc", "result %r" % (out,))]
                f = slice_fields(F, out)
                ok = aff_eq(f["start"], {"s": 1}, 0) and aff_eq(f["length"], {"l": 1}, 0) and isinstance(f["is_rc"], Int) and f["is_rc"].is_conc() and bool(f["is_rc"].val) == (not rc)
                return [] if ok else ["rc() of a view must keep (start, length) and toggle the flag; got (%s, %s, %r)" % (affs(f["start"]), affs(f["length"]), f["is_rc"])]
            run_rows(F, rep, rule, "slice.rc/rc=%s" % rc, body, lambda h, rc=rc: ([Ref(Cell(mk_slice(rc), "self"))], {}), check,
                     "DnaStringSlice::rc toggles only the flag (is_rc=%s)" % rc)
    # ---- slice(a, b)
    body = anchor(F, rep, "C15.4", "slice.slice", "dna_string::DnaStringSlice::<'a>::slice")
    if body is not None:
        for rc in (False, True):
            def check(h, out, cells, rc=rc):
                a_le_l = h.truth("Le", {"a": 1, "l": -1}, 0)
                b_le_l = h.truth("Le", {"b": 1, "l": -1}, 0)
                b_ge_a = h.truth("Ge", {"b": 1, "a": -1}, 0)
                legal = a_le_l is not False and b_le_l is not False and b_ge_a is not False
                if is_diverge(out):
                    if a_le_l and b_le_l and b_ge_a:
                        return ["slice(a, b) panics for an interval inside the view: %s" % out[1]]
                    return []
                if not (isinstance(out, Adt) and out.name == SLICE):
                    return [("inc", "result %r" % (out,))]
                f = slice_fields(F, out)
                if not rc:
                    ok = aff_eq(f["start"], {"s": 1, "a": 1}, 0)
                    want = "s+a"
                else:
                    ok = aff_eq(f["start"], {"s": 1, "l": 1, "b": -1}, 0)
                    want = "s+l-b"
                pr = []
                if not ok:
                    pr.append("sub-view [a,b) of a %s view starts at backing position %s; required %s" % ("reverse-complemented" if rc else "forward", affs(f["start"]), want))
                if not aff_eq(f["length"], {"b": 1, "a": -1}, 0):
                    pr.append("sub-view length is %s; required b-a" % affs(f["length"]))
                if not (isinstance(f["is_rc"], Int) and f["is_rc"].is_conc() and bool(f["is_rc"].val) == rc):
                    pr.append("the orientation flag is not inherited")
                return pr
            run_rows(F, rep, "C15.4", "slice.slice/rc=%s" % rc, body,
                     lambda h, rc=rc: ([Ref(Cell(mk_slice(rc), "self")), atom_int(64, "a"), atom_int(64, "b")], {}), check,
                     "DnaStringSlice::slice(a, b) remaps coordinates (is_rc=%s)" % rc)


def dnastring_view_ctors(F, rep, rule="C15.4"):
    """prefix / suffix / slice of DnaString and PackedDnaStringSet::get / slice"""
    DS = "dna_string::DnaString"
    dnames = [f["name"] for f in F.adts.get(DS, {"variants": [{"fields": []}]})["variants"][0]["fields"]]

    def ds():
        vals = {"storage": Opaque("Vec<u64>", {"storage"}), "len": atom_int(64, "n")}
        return Adt(DS, 0, [vals[n] for n in dnames])
    if sorted(dnames) != ["len", "storage"]:
        rep.inconclusive(rule, "DnaString/fields", "role discovery: the private representation of DnaString has fields %s (expected storage, len)" % dnames)
        return
    specs = [("prefix", ["k"], lambda: ({}, 0), {"k": 1}, [("Le", {"k": 1, "n": -1})]),
             ("suffix", ["k"], lambda: ({"n": 1, "k": -1}, 0), {"k": 1}, [("Le", {"k": 1, "n": -1})]),
             ("slice", ["a", "b"], lambda: ({"a": 1}, 0), {"b": 1, "a": -1}, [("Le", {"a": 1, "n": -1}), ("Le", {"b": 1, "n": -1})])]
    for nm, params, startf, lenf, guards in specs:
        body = anchor(F, rep, rule, "DnaString::" + nm, "dna_string::DnaString::" + nm)
        if body is None:
            continue

        def check(h, out, cells, startf=startf, lenf=lenf, guards=guards, nm=nm):
            gv = [h.truth(op, d, 0) for op, d in guards]
            if is_diverge(out):
                if all(g is True for g in gv):
                    return ["%s panics for in-range arguments: %s" % (nm, out[1])]
                return []
            if any(g is False for g in gv):
                return ["%s accepts an out-of-range coordinate (%s)" % (nm, h.obs.get("cmp"))]
            if not (isinstance(out, Adt) and out.name == SLICE):
                return [("inc", "result %r" % (out,))]
            f = slice_fields(F, out)
            sd, sc = startf()
            pr = []
            if not aff_eq(f["start"], sd, sc):
                pr.append("%s: view starts at %s; required %s" % (nm, affs(f["start"]), aff_str(bv.aff_pack(sd, sc))))
            if not aff_eq(f["length"], lenf, 0):
                pr.append("%s: view length %s; required %s" % (nm, affs(f["length"]), aff_str(bv.aff_pack(lenf, 0))))
            if not (isinstance(f["is_rc"], Int) and f["is_rc"].is_conc() and not f["is_rc"].val):
                pr.append("%s: a fresh view must be forward" % nm)
            return pr
        run_rows(F, rep, rule, "DnaString::" + nm, body,
                 lambda h, params=params: ([Ref(Cell(ds(), "self"))] + [atom_int(64, p) for p in params], {}), check,
                 "DnaString::%s builds the specified forward view and rejects out-of-range coordinates" % nm)
    # PackedDnaStringSet::get
    PS = "dna_string::PackedDnaStringSet"
    body = anchor(F, rep, "C14.5", PS + "::get", PS + "::get")
    if body is not None:
        class H(SeqOracles):
            def opaque_index(self, it, v, idx, base):
                t = tags_of(v)
                if "start-vec" in t:
                    return Ref(Cell(atom_int(64, "start[%s]" % affs(idx)), "elt"))
                if "length-vec" in t:
                    return Ref(Cell(atom_int(32, "length[%s]" % affs(idx)), "elt"))
                return None

        def mk_args(h):
            me = struct_of(F, PS, {"sequence": Opaque(DS, {"dnastring"}, {"seq": "back", "len": "N"}), "start": Opaque("Vec<usize>", {"start-vec"}),
                                   "length": Opaque("Vec<u32>", {"length-vec"})})
            return [Ref(Cell(me, "self")), atom_int(64, "i")], {}

        def check(h, out, cells):
            if not (isinstance(out, Adt) and out.name == SLICE):
                return [("inc", "result %r" % (out,))]
            f = slice_fields(F, out)
            pr = []
            if not aff_eq(f["start"], {"start[i]": 1}, 0) or not aff_eq(f["length"], {"length[i]": 1}, 0):
                pr.append("get(i) returns the view (%s, %s); required (start[i], length[i])" % (affs(f["start"]), affs(f["length"])))
            if not (isinstance(f["is_rc"], Int) and f["is_rc"].is_conc() and not f["is_rc"].val):
                pr.append("stored sequences must be returned forward")
            return pr
        run_rows(F, rep, "C14.5", PS + "::get", body, mk_args, check, "PackedDnaStringSet::get(i) = forward view (start[i], length[i])", mk_h=H)


# =========================================================================== C18 node k-mer iterator

NKI = "graph::NodeKmerIter"


def aff_val(x, env):
    f = aff_of(x) if isinstance(x, Int) else None
    if f is None:
        return None
    try:
        return sum(c * env[a] for a, c in f[0].items()) + f[1]
    except KeyError:
        return None


class NodeIterOracles(SeqOracles):
    """the node's slice has length N + K - 1"""

    def on_call(self, it, fn, args, dest_ty, term, caller):
        path = fn.get("path", "")
        name = path.split("::")[-1]
        tr = fn.get("trait", "")
        if tr in ("Mer", "Vmer") and name == "len" and args:
            x = recv(it, args[0])
            if isinstance(x, Opaque) and x.info.get("seq") == "node":
                self.calls.append(("len", "node"))
                return bv.aff_int(64, {"N": 1, "K": 1}, -1)
        if tr in ("Mer", "Vmer") and name in ("get", "get_kmer") and args:
            x = recv(it, args[0])
            if isinstance(x, Opaque) and x.info.get("seq") == "node":
                self.reads.append((name, args[1]))
        return SeqOracles.on_call(self, it, fn, args, dest_ty, term, caller)


def node_iter_state(F, c="c", n="N"):
    return struct_of(F, NKI, {"kmer_id": atom_int(64, c), "kmer": Opaque("K", {"kmer"}, {"kmer": "cur"}), "num_kmers": atom_int(64, n),
                              "node_seq_slice": seq_v("node", "n")})


def node_kmer_iter_tables(F, rep, rule="C18.1"):
    names = [f["name"] for f in F.adts.get(NKI, {"variants": [{"fields": []}]})["variants"][0]["fields"]]
    if not {"kmer_id", "kmer", "num_kmers", "node_seq_slice"} <= set(names):
        rep.inconclusive(rule, "NodeKmerIter/fields", "role discovery: the private fields of NodeKmerIter are %s (expected kmer_id, kmer, num_kmers, node_seq_slice)" % names)
        return
    ftys = {f["name"]: f["ty"] for f in F.adts[NKI]["variants"][0]["fields"]}
    extra = [n for n in names if n not in ("kmer_id", "kmer", "num_kmers", "node_seq_slice") and "PhantomData" not in ftys.get(n, "")]
    if ftys.get("kmer_id") != "usize" or ftys.get("num_kmers") != "usize" or extra or ftys.get("kmer") != "K":
        rep.inconclusive(rule, "NodeKmerIter/fields", "role discovery: the affine table models two usize counters (kmer_id, num_kmers); the iterator now has %s — "
                         "the end-to-end lemma decides the contract without this table" % {n: ftys[n] for n in names if "PhantomData" not in ftys[n]})
        return
    ATOMS = ("c", "N", "m", "K")

    def setup(h):
        h.reads = []
        h.arith = []
        h.assume({"N": 1, "K": 1}, hi=1 << 62)   # a node's bases are in memory: its length N+K-1 is nowhere near usize::MAX
        h.assume({"N": 1}, hi=1 << 62)
        h.assume({"K": 1}, hi=1 << 62)
        h.assume({"c": 1}, lo=0)
        h.assume({"N": 1}, lo=0)
        h.assume({"K": 1}, lo=1)
        h.assume({"m": 1}, lo=0)
        h.assume({"c": 1, "N": -1}, hi=0)        # the struct invariant kmer_id <= num_kmers

    def common_checks(h, out, cells, what):
        """invariant after the call; reads inside the node; returns problems"""
        pr = []
        st = cells["self"].v
        c2, n2 = st.fields[names.index("kmer_id")], st.fields[names.index("num_kmers")]
        wr = h.wraps(ATOMS)
        if wr is not None:
            op, fa, fb, env = wr
            pr.append("%s computes %s %s %s in usize, which overflows for kmer_id=%d, num_kmers=%d, K=%d, n=%d (a panic in a build with overflow checks; "
                      "without them the value wraps and the counter/position no longer means what the code assumes) — the contract covers every n"
                      % (what, aff_str(bv.aff_pack(*fa)), {"Add": "+", "Sub": "-", "Mul": "*"}[op], aff_str(bv.aff_pack(*fb)), env["c"], env["N"], env["K"], env["m"]))
            return pr
        if not aff_eq(n2, {"N": 1}, 0):
            pr.append("%s changes num_kmers" % what)
        # invariant c' <= N
        env = h.find_model(ATOMS, lambda e: (aff_val(c2, e) is not None and aff_val(c2, e) > e["N"]))
        if aff_of(c2) is None:
            pr.append(("inc", "%s: the counter is no longer an affine expression (%r)" % (what, c2)))
        elif env is not None:
            pr.append("%s can leave the counter past the end: with kmer_id=%d, num_kmers=%d%s the counter becomes %d — later calls never see kmer_id == num_kmers "
                      "and keep yielding k-mers read beyond the node" % (what, env["c"], env["N"], (", n=%d" % env["m"]) if "m" in str(aff_of(c2)) or True else "", aff_val(c2, env)))
        # every read lies inside the node: get idx <= N+K-2 ; get_kmer pos <= N-1
        for (kind, idx) in h.reads:
            if kind == "get":
                env = h.find_model(ATOMS, lambda e, idx=idx: aff_val(idx, e) is not None and aff_val(idx, e) > e["N"] + e["K"] - 2)
                lim = "the node's last base"
            else:
                env = h.find_model(ATOMS, lambda e, idx=idx: aff_val(idx, e) is not None and aff_val(idx, e) > e["N"] - 1)
                lim = "the node's last k-mer"
            if aff_of(idx) is None:
                pr.append(("inc", "%s reads at a non-affine index %r" % (what, idx)))
            elif env is not None:
                pr.append("%s reads %s at index %s, beyond %s (e.g. kmer_id=%d, num_kmers=%d, K=%d%s): the bases of the neighbouring node, or a panic on the last node" % (
                    what, "a base" if kind == "get" else "a k-mer", affs(idx), lim, env["c"], env["N"], env["K"], ", n=%d" % env["m"]))
        return pr

    # ---- next
    body = anchor(F, rep, rule, "NodeKmerIter::next", "<graph::NodeKmerIter<'a, K, D> as std::iter::Iterator>::next")
    if body is not None:
        def mk_args(h):
            cell = Cell(node_iter_state(F), "self")
            return [Ref(cell)], {"self": cell}

        def check(h, out, cells):
            if is_diverge(out):
                return ["next() diverges: %s" % out[1]]
            pr = common_checks(h, out, cells, "next()")
            at_end = h.truth("Eq", {"c": 1, "N": -1}, 0)
            st = cells["self"].v
            c2, k2 = st.fields[names.index("kmer_id")], st.fields[names.index("kmer")]
            if at_end is None:
                # the end test may be written as >= : accept any test that the invariant makes equivalent
                at_end = h.truth("Ge", {"c": 1, "N": -1}, 0)
            if at_end is None:
                return pr + [("inc", "end test undecided: %s" % h.obs.get("cmp"))]
            if at_end:
                if not (isinstance(out, Adt) and out.variant == 0):
                    pr.append("at the end (kmer_id == num_kmers) next() must return None, it returns %r" % (out,))
                if not aff_eq(c2, {"c": 1}, 0) and h.find_model(ATOMS, lambda e: aff_val(c2, e) != e["N"]) is not None:
                    pr.append("next() at the end moves the counter")
            else:
                if not (isinstance(out, Adt) and out.variant == 1 and info_of(out.fields[0]).get("kmer") == "cur"):
                    pr.append("before the end next() must yield the current k-mer, it returns %r" % (out,))
                if not aff_eq(c2, {"c": 1}, 1):
                    pr.append("next() advances the counter to %s instead of kmer_id+1" % affs(c2))
                more = h.truth("Lt", {"c": 1, "N": -1}, -1 + 0) if False else h.decide("Lt", {"c": 1, "N": -1}, 1)
                if more:
                    want = "extend_right(cur,base:node:%s)" % aff_str(bv.aff_pack({"c": 1, "K": 1}, 0))
                    if info_of(k2).get("kmer") != want:
                        pr.append("the next k-mer is %s; rolling requires %s" % (info_of(k2).get("kmer"), want))
            return pr
        run_rows(F, rep, rule, "NodeKmerIter::next", body, mk_args, check,
                 "NodeKmerIter::next: None exactly at kmer_id == num_kmers, otherwise yields and rolls; the counter never passes the end and no read leaves the node",
                 mk_h=NodeIterOracles, setup=setup)
    # ---- nth
    body = anchor(F, rep, rule, "NodeKmerIter::nth", "<graph::NodeKmerIter<'a, K, D> as std::iter::Iterator>::nth")
    if body is not None:
        def mk_args2(h):
            cell = Cell(node_iter_state(F), "self")
            return [Ref(cell), atom_int(64, "m")], {"self": cell}

        def check2(h, out, cells):
            if is_diverge(out):
                env = h.find_model(ATOMS, lambda e: True)
                return ["nth(n) diverges (%s)%s" % (out[1], (" e.g. for kmer_id=%d, num_kmers=%d, n=%d" % (env["c"], env["N"], env["m"])) if env else "")]
            pr = common_checks(h, out, cells, "nth(n)")
            # result: None iff c + m >= N
            is_some = isinstance(out, Adt) and out.variant == 1
            is_none = isinstance(out, Adt) and out.variant == 0
            if not (is_some or is_none):
                return pr + [("inc", "nth returns %r" % (out,))]
            if is_some:
                env = h.find_model(ATOMS, lambda e: e["c"] + e["m"] >= e["N"])
                if env is not None:
                    pr.append("nth(%d) with kmer_id=%d of %d k-mers skips past the last k-mer but returns a k-mer instead of None" % (env["m"], env["c"], env["N"]))
            else:
                env = h.find_model(ATOMS, lambda e: e["c"] + e["m"] < e["N"])
                if env is not None:
                    pr.append("nth(%d) with kmer_id=%d of %d k-mers returns None although the target k-mer exists" % (env["m"], env["c"], env["N"]))
            st = cells["self"].v
            c2 = st.fields[names.index("kmer_id")]
            if is_some and aff_of(c2) is not None and not aff_eq(c2, {"c": 1, "m": 1}, 1):
                env = h.find_model(ATOMS, lambda e: aff_val(c2, e) != e["c"] + e["m"] + 1)
                if env is not None:
                    pr.append("after nth(n) yields, the counter is %s instead of kmer_id+n+1" % affs(c2))
            return pr
        run_rows(F, rep, rule, "NodeKmerIter::nth", body, mk_args2, check2,
                 "NodeKmerIter::nth(n): returns None exactly when kmer_id + n >= num_kmers, never moves the counter past the end, never reads outside the node",
                 mk_h=NodeIterOracles, setup=setup)
    # ---- into_iter / size_hint
    body = anchor(F, rep, "C18.3", "NodeKmer::into_iter", "<graph::NodeKmer<'a, K, D> as std::iter::IntoIterator>::into_iter")
    if body is not None:
        def mk_args3(h):
            me = struct_of(F, "graph::NodeKmer", {"node_id": atom_int(64, "id"), "node_seq_slice": seq_v("node", "n")})
            return [me], {}

        def check3(h, out, cells):
            if is_diverge(out):
                return ["into_iter diverges: %s" % out[1]]
            if not (isinstance(out, Adt) and out.name == NKI):
                return [("inc", "result %r" % (out,))]
            c, k, N = out.fields[names.index("kmer_id")], out.fields[names.index("kmer")], out.fields[names.index("num_kmers")]
            pr = []
            if not (isinstance(c, Int) and c.is_conc() and c.val == 0):
                pr.append("iteration starts at kmer_id = %s" % affs(c))
            if not aff_eq(N, {"n": 1, "K": -1}, 1):
                pr.append("num_kmers is %s; a node of n bases has n-K+1 k-mers" % affs(N))
            pos = h.truth("Gt", {"n": 1, "K": -1}, 1)
            if pos and info_of(k).get("kmer") != "at:node:0":
                pr.append("the first k-mer is %s instead of the k-mer at 0" % info_of(k).get("kmer"))
            return pr

        class H3(SeqOracles):
            pass
        run_rows(F, rep, "C18.3", "NodeKmer::into_iter", body, mk_args3, check3,
                 "NodeKmer::into_iter: kmer_id = 0, num_kmers = len-K+1, first k-mer at 0", mk_h=H3)
    body = anchor(F, rep, "C18.3", "NodeKmerIter::size_hint", "<graph::NodeKmerIter<'a, K, D> as std::iter::Iterator>::size_hint")
    if body is not None:
        def check4(h, out, cells):
            ok = isinstance(out, Tup) and aff_eq(out.fields[0], {"N": 1}, 0) and isinstance(out.fields[1], Adt) and out.fields[1].variant == 1 and aff_eq(out.fields[1].fields[0], {"N": 1}, 0)
            return [] if ok else ["size_hint is %r; up front it must be (num_kmers, Some(num_kmers))" % (out,)]
        run_rows(F, rep, "C18.3", "NodeKmerIter::size_hint", body, lambda h: ([Ref(Cell(node_iter_state(F), "self"))], {}), check4,
                 "size_hint reports exactly num_kmers")
    # ---- node iterators
    for path, adt in (("<graph::NodeIter<'a, K, D> as std::iter::Iterator>::next", "graph::NodeIter"),
                      ("<graph::NodeIntoIter<'a, K, D> as std::iter::Iterator>::next", "graph::NodeIntoIter")):
        body = anchor(F, rep, "C18.4", adt + "::next", path)
        if body is None:
            continue

        class H5(SeqOracles):
            def on_call(self, it, fn, args, dest_ty, term, caller):
                p = fn.get("path", "")
                nm = p.split("::")[-1]
                if p.startswith("graph::DebruijnGraph") and nm == "len":
                    return atom_int(64, "L")
                if p.startswith("graph::Node::<") and nm == "sequence":
                    n = recv(it, args[0])
                    return Opaque("DnaStringSlice", {"seq"}, {"seq": "node@%s" % affs(n.fields[0]), "len": "n"})
                if "PackedDnaStringSet" in p and nm == "get" and len(args) == 2:
                    return Opaque("DnaStringSlice", {"seq"}, {"seq": "node@%s" % affs(args[1]), "len": "n"})
                return SeqOracles.on_call(self, it, fn, args, dest_ty, term, caller)

        def mk_args5(h, adt=adt):
            me = struct_of(F, adt, {"graph": Ref(Cell(Opaque("graph", {"graph"}), "graph")), "node_id": atom_int(64, "i")})
            cell = Cell(me, "self")
            return [Ref(cell)], {"self": cell}

        def check5(h, out, cells, adt=adt):
            fn_ = [f["name"] for f in F.adts[adt]["variants"][0]["fields"]]
            i2 = cells["self"].v.fields[fn_.index("node_id")]
            wr = h.wraps(("i", "L"))
            if wr is not None:
                op, fa, fb, env = wr
                return ["%s::next computes %s %s %s in usize, which overflows for node_id=%d on a graph of %d nodes (a panic in a build with overflow checks; "
                        "otherwise the wrapped value makes the end test meaningless)" % (adt.split("::")[-1], aff_str(bv.aff_pack(*fa)),
                                                                                       {"Add": "+", "Sub": "-", "Mul": "*"}[op], aff_str(bv.aff_pack(*fb)), env["i"], env["L"])]
            lt = h.truth("Lt", {"i": 1, "L": -1}, 0)
            if lt is None:
                return [("inc", "end test undecided")]
            pr = []
            if lt:
                if not (isinstance(out, Adt) and out.variant == 1):
                    pr.append("with node_id < len the iterator must yield")
                else:
                    v = out.fields[0]
                    nid = v.fields[0] if isinstance(v, Adt) else None
                    if not (isinstance(nid, Int) and aff_eq(nid, {"i": 1}, 0)):
                        pr.append("the yielded node is %s instead of node i" % (affs(nid) if nid is not None else v))
                if not aff_eq(i2, {"i": 1}, 1):
                    pr.append("node_id advances to %s" % affs(i2))
            else:
                if not (isinstance(out, Adt) and out.variant == 0):
                    pr.append("past the last node the iterator must end")
            return pr
        def setup5(h):
            h.arith = []
            h.assume({"i": 1}, lo=0)
            h.assume({"L": 1}, lo=0, hi=1 << 62)
            h.assume({"i": 1, "L": -1}, hi=0)      # node_id only ever advances while it is below len

        run_rows(F, rep, "C18.4", adt + "::next", body, mk_args5, check5, "%s::next visits node i for i = 0..len (including the graph without nodes), "
                 "one item per node" % adt.split("::")[-1], mk_h=H5, setup=setup5)


# =========================================================================== C15.1 view discipline / renderers, C15.2-3 hamming distance

VIEW_GET = "<dna_string::DnaStringSlice<'a> as Mer>::get"


class ViewOracles(Oracles):
    """DnaStringSlice methods must read bases through the view (get / get_kmer), never the backing string directly"""
    interpret_fmt = True

    def __init__(self, script=()):
        Oracles.__init__(self, script)
        self.view_reads = []
        self.direct_reads = []
        self.rendered = []
        self.pushed = []

    def which(self, sl):
        for t in ("self", "other"):
            if isinstance(sl, Adt):
                back = sl.fields[0]
                v = back.cell.v if isinstance(back, Ref) else back
                if isinstance(v, Opaque) and v.info.get("seq") == t:
                    return t
        return "?"

    def on_call(self, it, fn, args, dest_ty, term, caller):
        path = fn.get("path", "")
        rpath = fn.get("rpath") or path
        name = path.split("::")[-1]
        if rpath == VIEW_GET or (fn.get("trait") == "Mer" and name == "get" and args and isinstance(recv(it, args[0]), Adt) and recv(it, args[0]).name == SLICE):
            sl = recv(it, args[0])
            p = args[1].val if isinstance(args[1], Int) and args[1].is_conc() else affs(args[1])
            w = self.which(sl)
            self.view_reads.append((w, p))
            return Int(8, False, bits=[TOP] * 8, tags=frozenset({"view:%s:%s" % (w, p)}))
        if fn.get("trait") in ("Mer", "Vmer") and args and isinstance(recv(it, args[0]), Opaque) and "seq" in recv(it, args[0]).info and name in ("get", "get_kmer"):
            self.direct_reads.append((recv(it, args[0]).info["seq"], name, affs(args[1])))
            return Int(8, False, bits=[TOP] * 8, tags=frozenset({"direct"}))
        if path in ("bits_to_base", "bits_to_ascii"):
            t = [x for x in tags_of(args[0]) if x.startswith("view:")]
            self.rendered.append(t[0] if t else ("direct" if "direct" in tags_of(args[0]) else None))
            it_ = 32 if path == "bits_to_base" else 8
            return Int(it_, False, bits=[TOP] * it_, tags=frozenset({"rendered:%s" % (t[0] if t else "?")}), kind="char" if path == "bits_to_base" else "int")
        if path == "dna_string::DnaString::push":
            t = [x for x in tags_of(args[1]) if x.startswith("view:")]
            self.pushed.append(t[0] if t else None)
            return Tup([])
        if path == "dna_string::DnaString::with_capacity" or path == "dna_string::DnaString::new":
            return Opaque("DnaString", {"owned"})
        if path == "dna_string::DnaString::extend" and len(args) == 2 and isinstance(recv(it, args[0]), Opaque) and "owned" in tags_of(recv(it, args[0])):
            from .models import drain_iter
            items = drain_iter(it, args[1], term, caller)
            if items is None:
                raise Undecided("DnaString::extend from %r" % (args[1],))
            for x in items:
                t = [y for y in tags_of(x) if y.startswith("view:")]
                self.pushed.append(t[0] if t else None)
            return Tup([])
        return NotImplemented

    def unknown_compare(self, it, op, a, b):
        ta = [x for x in tags_of(a) if x.startswith("view:")]
        tb = [x for x in tags_of(b) if x.startswith("view:")]
        if ta and tb:
            self.observe("base-compare", (ta[0], tb[0]))
            pa = ta[0].split(":")[2]
            eq = self.choose("equal@%s" % pa, (True, False))
            return {"Eq": eq, "Ne": not eq}.get(op)
        return None


def mk_view(name, length, is_rc, start=2):
    return Adt(SLICE, 0, [Ref(Cell(Opaque("DnaString", {"dnastring"}, {"seq": name, "len": "N"}), name)),
                           Int(64, False, val=start), Int(64, False, val=length), mkbool(is_rc)])


def slice_renderers(F, rep, rule="C15.1"):
    L = 3
    specs = [
        ("dna_string::DnaStringSlice::<'a>::bytes", "bytes", "vec"),
        ("dna_string::DnaStringSlice::<'a>::ascii", "ascii", "rendered-vec"),
        ("dna_string::DnaStringSlice::<'a>::to_dna_string", "to_dna_string", "rendered-vec"),
        ("dna_string::DnaStringSlice::<'a>::to_owned", "to_owned", "pushed"),
        ("<dna_string::DnaStringSlice<'a> as std::fmt::Display>::fmt", "Display::fmt", "rendered"),
        ("<dna_string::DnaStringSlice<'a> as std::fmt::Debug>::fmt", "Debug::fmt", "rendered"),
    ]
    want_view = ["view:self:%d" % p for p in range(L)]
    for path, nm, how in specs:
        body = anchor(F, rep, rule, "view/" + nm, path)
        if body is None:
            continue
        problems = []
        inc = []
        for rc in (False, True):
            h = ViewOracles()
            it = Interp(F, False, h)
            args = [Ref(Cell(mk_view("self", L, rc), "self"))]
            if how == "rendered":
                args.append(Ref(Cell(Opaque("Formatter", {"fmt"}), "f")))
            rep.evaluations += 1
            try:
                out = it.call_body(body, args)
            except (Undecided, Unsupported) as e:
                inc.append("%s (is_rc=%s): %s" % (nm, rc, e))
                continue
            except Diverge as e:
                problems.append("%s diverges: %s" % (nm, e))
                continue
            if h.direct_reads:
                problems.append("%s reads the backing string directly (%s) — a reverse-complemented view (is_rc=%s) is rendered as the forward strand" % (
                    nm, h.direct_reads[0], rc))
                continue
            if how == "vec":
                got = [([x for x in tags_of(e) if x.startswith("view:")] or [None])[0] for e in out.elems] if isinstance(out, VecV) else None
            elif how == "rendered-vec":
                got = [([x[9:] for x in tags_of(e) if x.startswith("rendered:")] or [None])[0] for e in out.elems] if isinstance(out, VecV) else None
            elif how == "pushed":
                got = h.pushed
            else:
                got = h.rendered
            if got != want_view:
                problems.append("%s (is_rc=%s) produces %s; it must render positions 0..len of the view in order: %s" % (nm, rc, got, want_view))
        if problems:
            rep.violated(rule, "view/" + nm, problems[0], site=F.site(body, body["line"]), witness={"kind": "view-discipline", "count": len(problems)})
        elif inc:
            rep.inconclusive(rule, "view/" + nm, inc[0])
        else:
            rep.holds(rule, "view/" + nm, "%s reads every base through the view (so is_rc is honoured) and renders positions 0..len in order" % nm)
    # ---- eq
    body = anchor(F, rep, rule, "view/eq", "<dna_string::DnaStringSlice<'a> as std::cmp::PartialEq>::eq")
    if body is not None:
        problems = []
        inc = []
        rows = 0
        for la, lb in ((L, L), (L, L + 1)):
            def mk(script):
                return ViewOracles(script)

            def run(h, la=la, lb=lb):
                it = Interp(F, False, h)
                return it.call_body(body, [Ref(Cell(mk_view("self", la, False), "self")), Ref(Cell(mk_view("other", lb, True), "other"))])
            for a, out, h in explore(mk, run):
                rows += 1
                rep.evaluations += 1
                if isinstance(out, tuple) and out and out[0] == "inconclusive":
                    inc.append(out[1])
                    continue
                if h.direct_reads:
                    problems.append("eq reads the backing string directly: %s" % (h.direct_reads[0],))
                    continue
                val = bool(out.val) if isinstance(out, Int) and out.is_conc() else None
                if la != lb:
                    want = False
                else:
                    want = all(a.get("equal@%d" % p, True) for p in range(la))
                    if val is True and any(("equal@%d" % p) not in a for p in range(la)):
                        problems.append("eq returns true without comparing view position %d (the bases there can differ)" % (
                            [p for p in range(la) if ("equal@%d" % p) not in a][0]))
                        continue
                if val != want:
                    problems.append("eq returns %s for lengths (%d,%d) and per-position equality %s" % (val, la, lb, {k: v for k, v in a.items()}))
                for (x, y) in h.obs.get("base-compare", []):
                    px, py = x.split(":"), y.split(":")
                    if px[2] != py[2] or {px[1], py[1]} != {"self", "other"}:
                        problems.append("eq compares %s with %s; it must compare position i of self with position i of other" % (x, y))
        if problems:
            rep.violated(rule, "view/eq", problems[0], site=F.site(body, body["line"]), witness={"kind": "row", "count": len(problems)})
        elif inc:
            rep.inconclusive(rule, "view/eq", inc[0])
        else:
            rep.holds(rule, "view/eq", "slice equality ⇔ equal length and equal bases at every view position (%d rows)" % rows)


class HammingOracles(ViewOracles):
    """positions are normalised to the ORIGINAL view of each operand, so derived views (rc(), sub-slices, clones) are followed"""

    def norm(self, sl, p, width):
        """(which, first original-view position, orientation) of `width` bases at view position p of slice value sl"""
        w = self.which(sl)
        st, ln, rc = sl.fields[1], sl.fields[2], sl.fields[3]
        if not (isinstance(st, Int) and st.is_conc() and isinstance(ln, Int) and ln.is_conc() and isinstance(rc, Int) and rc.is_conc() and isinstance(p, int)):
            return (w, "?", "?")
        st, ln, rc = st.val, ln.val, bool(rc.val)
        lo = st + p if not rc else st + ln - width - p          # backing interval [lo, lo+width)
        st0, ln0, rc0 = self.orig[w]
        first = (lo - st0) if not rc0 else (st0 + ln0 - (lo + width))
        return (w, first, "same" if rc == rc0 else "flipped")

    def on_call(self, it, fn, args, dest_ty, term, caller):
        path = fn.get("path", "")
        rpath = fn.get("rpath") or path
        name = path.split("::")[-1]
        if name == "clone" and args and isinstance(recv(it, args[0]), Adt) and recv(it, args[0]).name == SLICE:
            return recv(it, args[0])
        if (rpath == VIEW_GET or (fn.get("trait") == "Mer" and name == "get")) and args and isinstance(recv(it, args[0]), Adt) and recv(it, args[0]).name == SLICE:
            sl = recv(it, args[0])
            p = args[1].val if isinstance(args[1], Int) and args[1].is_conc() else None
            w, first, orient = self.norm(sl, p, 1)
            self.view_reads.append((w, first))
            return Int(8, False, bits=[TOP] * 8, tags=frozenset({"view:%s:%s" % (w, first), "orient:" + orient}))
        if fn.get("trait") == "Vmer" and name == "get_kmer" and args and isinstance(recv(it, args[0]), Adt) and recv(it, args[0]).name == SLICE:
            sl = recv(it, args[0])
            p = args[1].val if isinstance(args[1], Int) and args[1].is_conc() else None
            w, first, orient = self.norm(sl, p, 32)
            self.observe("block", (w, first, orient))
            return Opaque("K", {"kmer"}, {"block": (w, "%s/%s" % (first, orient))})
        if fn.get("trait") == "Kmer" and name == "to_u64":
            k = recv(it, args[0])
            return Int(64, False, bits=[TOP] * 64, tags=frozenset({"block:%s:%s" % k.info.get("block", ("?", "?"))}))
        if path == "dna_string::count_diff_2_bit_packed":
            ta = [x for x in tags_of(args[0]) if x.startswith("block:")]
            tb = [x for x in tags_of(args[1]) if x.startswith("block:")]
            self.observe("block-compare", (ta[0] if ta else None, tb[0] if tb else None))
            return Int(32, False, val=0)
        return ViewOracles.on_call(self, it, fn, args, dest_ty, term, caller)


def hamming_dist_table(F, rep, rule="C15.2"):
    body = anchor(F, rep, rule, "hamming_dist", "dna_string::DnaStringSlice::<'a>::hamming_dist")
    if body is None:
        return
    problems = []
    inc = []
    for L in (0, 1, 31, 32, 33, 63, 64, 65, 96, 100, 1024 + 5):
        for rcs in ((False, False), (True, True), (False, True)):
            h = HammingOracles()
            h.script = []
            h.orig = {"self": (2, L, rcs[0]), "other": (2, L, rcs[1])}
            it = Interp(F, False, h)
            rep.evaluations += 1
            try:
                it.call_body(body, [Ref(Cell(mk_view("self", L, rcs[0]), "self")), Ref(Cell(mk_view("other", L, rcs[1]), "other"))])
            except (Undecided, Unsupported) as e:
                inc.append("len %d: %s" % (L, e))
                continue
            except Diverge as e:
                problems.append("hamming_dist diverges for two slices of length %d: %s" % (L, e))
                continue
            covered = {}
            for (x, y) in h.obs.get("block-compare", []):
                if x is None or y is None:
                    problems.append("a block comparison uses operands that are not 32-base blocks of the slices")
                    continue
                wx, px = x.split(":")[1], x.split(":")[2]
                wy, py = y.split(":")[1], y.split(":")[2]
                if {wx, wy} != {"self", "other"}:
                    problems.append("length %d: a block of `%s` is compared with a block of `%s` — the distance must compare self with other" % (L, wx, wy))
                    continue
                if px != py:
                    problems.append("length %d (is_rc %s/%s): 32-base block %s of one operand is compared with block %s of the other (first original position / "
                                    "orientation) — they do not hold the same positions in the same order" % (L, rcs[0], rcs[1], px, py))
                    continue
                px = px.split("/")[0]
                if not px.lstrip("-").isdigit():
                    inc.append("block position not determined")
                    continue
                for q in range(int(px), int(px) + 32):
                    covered[q] = covered.get(q, 0) + 1
            for (x, y) in h.obs.get("base-compare", []):
                wx, px = x.split(":")[1], x.split(":")[2]
                wy, py = y.split(":")[1], y.split(":")[2]
                if {wx, wy} != {"self", "other"} or px != py:
                    problems.append("length %d: base %s is compared with base %s" % (L, x, y))
                    continue
                covered[int(px)] = covered.get(int(px), 0) + 1
            missing = [q for q in range(L) if covered.get(q, 0) == 0]
            twice = [q for q in range(L) if covered.get(q, 0) > 1]
            beyond = [q for q in covered if q >= L]
            # positions that WERE read from both operands, but compared by a construct this table does not follow (it knows the block helper and
            # per-base comparisons): undecided here — the exact lemmas on symbolic backing strings decide them.  Positions never read are exact.
            read = {"self": set(), "other": set()}
            for (w_, first_, orient_) in h.obs.get("block", []):
                if isinstance(first_, int) and w_ in read:
                    read[w_].update(range(first_, first_ + 32))
            for (w_, first_) in h.view_reads:
                if isinstance(first_, int) and w_ in read:
                    read[w_].add(first_)
            if missing and all(q in read["self"] and q in read["other"] for q in missing):
                inc.append("length %d: positions %s%s are read from both operands but compared in a way this table does not follow" % (L, missing[:4], "…" if len(missing) > 4 else ""))
                continue
            if missing:
                problems.append("slices of length %d (is_rc %s/%s): positions %s%s are never compared — differences there are not counted" % (
                    L, rcs[0], rcs[1], missing[:6], "…" if len(missing) > 6 else ""))
            elif twice:
                problems.append("slices of length %d (is_rc %s/%s): positions %s%s are compared more than once — differences there are counted twice" % (
                    L, rcs[0], rcs[1], twice[:6], "…" if len(twice) > 6 else ""))
            elif beyond:
                problems.append("slices of length %d: positions %s beyond the end are compared" % (L, beyond[:4]))
            if h.direct_reads:
                problems.append("hamming_dist reads the backing string directly (%s): wrong for reverse-complemented or offset views" % (h.direct_reads[0],))
    if problems:
        rep.violated(rule, "hamming_dist", "DnaStringSlice::hamming_dist: %s" % problems[0], site=F.site(body, body["line"]),
                     witness={"kind": "coverage", "count": len(problems)})
    elif inc:
        rep.inconclusive(rule, "hamming_dist", "hamming_dist: %s" % inc[0])
    else:
        rep.holds(rule, "hamming_dist", "DnaStringSlice::hamming_dist compares every position 0..len exactly once, always self against other at the same view "
                  "position, through the views (lengths 0..1029 incl. block boundaries; forward, reverse-complemented and mixed operands)")


# =========================================================================== C10 default constructors / renderers of the Kmer trait

def kmer_default_tables(F, rep, rule="C10.defaults"):
    """from_bytes / from_ascii / to_string / kmers_from_bytes / kmers_from_ascii, interpreted with the primitives as observation points"""
    K = 3

    class H(Oracles):
        def __init__(self):
            Oracles.__init__(self)
            self.n_ext = 0

        @staticmethod
        def src(v):
            t = [x for x in tags_of(v) if x.startswith("in:") or x.startswith("b2b:")]
            return t[0] if t else None

        def on_call(self, it, fn, args, dest_ty, term, caller):
            path = fn.get("path", "")
            name = path.split("::")[-1]
            tr = fn.get("trait", "")
            if is_print_call(fn):
                return Opaque(dest_ty, {"fmt"})
            if tr == "Kmer" and name == "k":
                return Int(64, False, val=K)
            if tr == "Mer" and name == "len":
                return Int(64, False, val=K)
            if tr == "Kmer" and name == "empty":
                return Opaque("Self", {"kmer"}, {"bases": ("A",) * K})
            if tr == "Mer" and name == "set_mut":
                r = args[0]
                k = it.read(r.cell, r.path)
                i = args[1].val if isinstance(args[1], Int) and args[1].is_conc() else None
                if i is None or not (0 <= i < K):
                    raise Diverge("set_mut at position %r of a %d-mer" % (args[1], K))
                b = list(k.info["bases"])
                b[i] = self.src(args[2]) or "?"
                it.write(r.cell, r.path, Opaque("Self", {"kmer"}, {"bases": tuple(b)}))
                return Tup([])
            if tr == "Kmer" and name == "extend_right":
                k = recv(it, args[0])
                b = list(k.info["bases"])[1:] + [self.src(args[1]) or "?"]
                return Opaque("Self", {"kmer"}, {"bases": tuple(b)})
            if tr == "Mer" and name == "get":
                k = recv(it, args[0])
                i = args[1].val if isinstance(args[1], Int) and args[1].is_conc() else None
                return Int(8, False, bits=[TOP] * 8, tags=frozenset({"base:%s" % i}))
            if path == "base_to_bits":
                s_ = self.src(args[0])
                return Int(8, False, bits=[TOP] * 8, tags=frozenset({"b2b:" + (s_[3:] if s_ else "?")}))
            if path == "bits_to_base":
                t = [x for x in tags_of(args[0]) if x.startswith("base:")]
                return Int(32, False, bits=[TOP] * 32, tags=frozenset({"char-of-" + (t[0] if t else "?")}), kind="char")
            return NotImplemented

    def inputs(n):
        return Ref(Cell(Arr([Int(8, False, bits=[TOP] * 8, tags=frozenset({"in:%d" % i})) for i in range(n)]), "input"))

    def run(path, args):
        body = F.fns.get(path)
        if body is None:
            raise KeyError(path)
        h = H()
        it = Interp(F, False, h)
        return it.call_body(body, args), h
    specs = [("Kmer::from_bytes", "in", False), ("Kmer::from_ascii", "b2b", False), ("Kmer::kmers_from_bytes", "in", True), ("Kmer::kmers_from_ascii", "b2b", True)]
    for path, pre, many in specs:
        problems = []
        inc = []
        if path not in F.fns:
            rep.violated(rule, path, "anchor-missing: %s" % path, witness={"kind": "anchor-missing"})
            continue
        for n in ((K, K + 2) if not many else (0, K - 1, K, K + 1, K + 3)):
            rep.evaluations += 1
            try:
                out, h = run(path, [inputs(n)])
            except (Undecided, Unsupported) as e:
                inc.append("%d input items: %s" % (n, e))
                continue
            except Diverge as e:
                problems.append("%s diverges on %d input items (K=%d): %s" % (path, n, K, e))
                continue
            if not many:
                got = out.info.get("bases") if isinstance(out, Opaque) else None
                want = tuple("%s:%d" % (pre, i) for i in range(K))
                if got != want:
                    problems.append("%s of %d items builds the k-mer %s; required base i = %s item i for i < K: %s" % (path, n, got, "the code of" if pre == "b2b" else "", want))
            else:
                got = [e.info.get("bases") for e in out.elems] if isinstance(out, VecV) else None
                want = [tuple("%s:%d" % (pre, i + j) for j in range(K)) for i in range(max(0, n - K + 1))]
                if got != want:
                    problems.append("%s of %d items yields %s; required the %d windows %s" % (path, n, got, len(want), want))
        if problems:
            rep.violated(rule, path, problems[0], site=F.site(F.fns[path], F.fns[path]["line"]), witness={"kind": "row", "count": len(problems)})
        elif inc:
            rep.inconclusive(rule, path, "%s: %s" % (path, inc[0]))
        else:
            rep.holds(rule, path, "%s feeds item i (%s) to position i of the k-mer%s" % (path, "through base_to_bits" if pre == "b2b" else "as is",
                                                                                         " and rolls one item per further k-mer: n-K+1 k-mers in order" if many else ", first K items only"))
    # to_string
    path = "Kmer::to_string"
    if path not in F.fns:
        rep.violated(rule, path, "anchor-missing: %s" % path, witness={"kind": "anchor-missing"})
    else:
        rep.evaluations += 1
        try:
            out, h = run(path, [Ref(Cell(Opaque("Self", {"kmer"}, {"bases": ("x",) * K}), "self"))])
            got = [([t for t in tags_of(e) if t.startswith("char-of-")] or [None])[0] for e in out.elems] if isinstance(out, VecV) else None
            want = ["char-of-base:%d" % i for i in range(K)]
            if got == want:
                rep.holds(rule, path, "to_string renders bits_to_base(get(i)) for i = 0..K in order")
            else:
                rep.violated(rule, path, "to_string renders %s; required %s" % (got, want), site=F.site(F.fns[path], F.fns[path]["line"]))
        except (Undecided, Unsupported) as e:
            rep.inconclusive(rule, path, "to_string: %s" % e)
        except Diverge as e:
            rep.violated(rule, path, "to_string diverges: %s" % e)


# =========================================================================== C18: overridden consumers of the node k-mer iterator (fold, …)

def node_iter_consumer_table(F, rep, rule="C18.8"):
    """An `impl Iterator for NodeKmerIter` that overrides a *consuming* provided method (fold, for_each, count, last) takes that method out
    of the contract the other lemmas establish through next()/nth().  Each override is interpreted (generic MIR) on every iterator state of a
    small node — cursor 0..N with N = 3 k-mers, K = 3, including the exhausted state — with a recording callback: the k-mers handed out
    must be exactly those from the cursor to the end, in order."""
    names = [f["name"] for f in F.adts.get(NKI, {"variants": [{"fields": []}]})["variants"][0]["fields"]]
    over = {}
    for k, b in F.fns.items():
        if k.startswith("<" + NKI) and "std::iter::Iterator>::" in k and "{closure" not in k:
            m = k.split("::")[-1]
            if m not in ("next", "nth", "size_hint"):
                over[m] = b
    if not over:
        return
    if not {"kmer_id", "kmer", "num_kmers", "node_seq_slice"} <= set(names):
        rep.inconclusive(rule, "NodeKmerIter/consumers", "the iterator overrides %s and its fields are %s: no table for this representation" % (sorted(over), names))
        return
    K, N = 3, 3

    class H(Oracles):
        def __init__(self):
            Oracles.__init__(self, [])
            self.items = []

        def on_call(self, it, fn, args, dest_ty, term, caller):
            path = fn.get("path", "")
            name = path.split("::")[-1]
            tr = fn.get("trait", "") or ""
            if is_print_call(fn):
                return Opaque(dest_ty, {"fmt"})
            if name == "k" and tr == "Kmer":
                return Int(64, False, val=K)
            if tr in ("Mer", "Vmer") and args and isinstance(recv(it, args[0]), Opaque) and recv(it, args[0]).info.get("seq") == "node":
                if name == "len":
                    return Int(64, False, val=N + K - 1)
                if name == "get":
                    i = args[1].val if isinstance(args[1], Int) and args[1].is_conc() else None
                    if i is None or i >= N + K - 1:
                        raise Diverge("base %r of a node of %d bases" % (args[1], N + K - 1))
                    return Int(8, False, bits=[TOP] * 8, tags=frozenset({"b:%d" % i}))
                if name == "get_kmer":
                    i = args[1].val if isinstance(args[1], Int) and args[1].is_conc() else None
                    if i is None or i >= N:
                        raise Diverge("k-mer %r of a node of %d k-mers" % (args[1], N))
                    return Opaque("K", {"kmer"}, {"at": i})
            if tr == "Kmer" and name == "extend_right":
                k = recv(it, args[0])
                b = [t for t in tags_of(args[1]) if t.startswith("b:")]
                at = k.info.get("at") if isinstance(k, Opaque) else None
                if at is not None and b and int(b[0][2:]) == at + K:
                    return Opaque("K", {"kmer"}, {"at": at + 1})
                return Opaque("K", {"kmer"}, {"at": None, "bad": "extend_right(k-mer %s, base %s)" % (at, b[0] if b else "?")})
            if name in ("call", "call_mut", "call_once") and args and isinstance(recv(it, args[0]), Opaque) and "callback" in tags_of(recv(it, args[0])):
                tup = args[1]
                vals = list(tup.fields) if isinstance(tup, Tup) else [tup]
                km = [v for v in vals if isinstance(v, Opaque) and "kmer" in tags_of(v)]
                self.items.append(km[0].info.get("at") if km else "?")
                acc = [v for v in vals if isinstance(v, Int)]
                return Int(64, False, val=(acc[0].val + 1) if acc and acc[0].is_conc() else len(self.items)) if len(vals) == 2 else Tup([])
            return NotImplemented

    for m, body in sorted(over.items()):
        key = "NodeKmerIter::%s" % m
        if m not in ("fold", "for_each", "count", "last"):
            rep.inconclusive(rule, key, "the iterator overrides Iterator::%s; no table relates it to next()" % m)
            continue
        problems, inc = [], []
        for c in range(0, N + 1):
            h = H()
            it = Interp(F, False, h)
            me = struct_of(F, NKI, {"kmer_id": Int(64, False, val=c), "kmer": Opaque("K", {"kmer"}, {"at": min(c, N - 1) if c < N else N - 1, "stale": c >= N}),
                                    "num_kmers": Int(64, False, val=N), "node_seq_slice": seq_v("node", "n")})
            cb = Opaque("F", {"callback"})
            args = {"fold": [me, Int(64, False, val=0), cb], "for_each": [me, cb], "count": [me], "last": [me]}[m]
            rep.evaluations += 1
            try:
                r = it.call_body(body, args)
            except (Undecided, Unsupported) as e:
                inc.append("cursor %d: %s" % (c, e))
                continue
            except Diverge as e:
                problems.append("with the cursor at %d of %d k-mers, %s panics: %s" % (c, N, m, e))
                continue
            want = list(range(c, N))
            if m in ("fold", "for_each"):
                if h.items != want:
                    problems.append("with the cursor at %d of %d k-mers%s, %s hands the callback the k-mers %s; the remaining k-mers are %s" % (
                        c, N, " (exhausted)" if c == N else "", m, h.items, want))
            elif m == "count":
                if not (isinstance(r, Int) and r.is_conc() and r.val == len(want)):
                    problems.append("with the cursor at %d of %d k-mers, count() is %r; %d k-mers remain" % (c, N, r, len(want)))
            elif m == "last":
                got = (r.fields[0].info.get("at") if isinstance(r, Adt) and r.variant == 1 and isinstance(r.fields[0], Opaque) else None) if isinstance(r, Adt) else "?"
                if got != (want[-1] if want else None) or (isinstance(r, Adt) and r.variant == 1 and not want):
                    problems.append("with the cursor at %d of %d k-mers, last() is k-mer %s; expected %s" % (c, N, got, want[-1] if want else "None"))
        if problems:
            rep.violated(rule, key, "NodeKmerIter overrides Iterator::%s: %s" % (m, problems[0]), site=F.site(body, body["line"]), witness={"kind": "row", "count": len(problems)})
        elif inc:
            rep.inconclusive(rule, key, "NodeKmerIter overrides Iterator::%s: %s" % (m, inc[0]))
        else:
            rep.holds(rule, key, "the overridden %s hands out exactly the k-mers from the cursor to the end of the node, for every cursor 0..%d" % (m, N))
