"""Decision tables for graph queries and extension pruning (C03, C06.5, C19.4)."""
from . import bv, cfg as C
from .bv import Int, mkbool, ZERO, ONE, TOP, var
from .absint import (Adt, Arr, Cell, Closure, Diverge, FnItem, Harness, Interp, Opaque, Ref, Tup, Undecided,
                     Unsupported, VecV, UNINIT, tags_of, with_tags)
from .dt import (BOTTOM, DIR, LEFT, RIGHT, Oracles, check_table, dir_name, dir_of, dir_v, explore, flip, is_print_call,
                 xor_dir)
from .dt_tables import EXTS, recv, struct_of
from .models import DequeV, IterV, some, none, deref_val

OPTION = "std::option::Option"
RESULT = "std::result::Result"


def pub_fn(F, suffix, prefix="graph::DebruijnGraph"):
    c = [b for b in F.fns.values() if b["path"].startswith(prefix) and b["path"].endswith("::" + suffix)]
    if len(c) != 1:
        raise Unsupported("anchor-missing: %s…::%s (found %d)" % (prefix, suffix, len(c)))
    return c[0]


def graph_value(F, stranded):
    """an abstract DebruijnGraph whose index fields can be told apart"""
    base = struct_of(F, "graph::BaseGraph", {
        "sequences": Opaque("PackedDnaStringSet", {"sequences"}), "exts": Opaque("Vec<Exts>", {"exts-vec"}),
        "data": Opaque("Vec<D>", {"data-vec"}), "stranded": mkbool(stranded)})
    return struct_of(F, "graph::DebruijnGraph", {
        "base": base, "left_order": Opaque("BoomHashMap", {"index", "left_order"}),
        "right_order": Opaque("BoomHashMap", {"index", "right_order"})})


# =========================================================================== the index layer (shared by find_link / find_edges tables)

class IndexLayer(Oracles):
    """Ground truth: for a probe k-mer (a named probe `pid`, in its own form `k` or its reverse complement `rc`) the oracle
    `hit:<pid><form>:<which>` says whether it IS the <which>-side end k-mer of some node.  Every way of looking an end k-mer up answers
    from that truth:
      * BoomHashMap::get (key-verified)            -> Some(node) iff hit
      * Mphf::try_hash (keyless minimal perfect hash) -> the node's slot if hit; for an absent key either None or the slot of an
                                                     ARBITRARY other node (oracle `alias:…`) — whoever uses it must confirm the hit
      * slot -> node id tables, node sequence -> terminal k-mer, k-mer equality: consistent with the above (an aliased node's end k-mer
        is not the probe)."""

    def pid_form(self, k):
        t = tags_of(k)
        pid = ""
        for x in t:
            if x.startswith("base-"):
                pid = "b%s/" % x[5:]
        return pid, ("rc" if "rc-form" in t else "k")

    def which_of(self, v):
        t = tags_of(v)
        return "left_order" if "left_order" in t else ("right_order" if "right_order" in t else None)

    def hit(self, pid, form, which):
        return self.choose("hit:%s%s:%s" % (pid, form, which), (False, True))

    def index_call(self, it, fn, args, dest_ty, term, caller):
        path = fn.get("path", "")
        name = path.split("::")[-1]
        if fn.get("trait") == "Mer" and name == "rc" and args:
            k = recv(it, args[0])
            t = set(tags_of(k))
            if "kmer" in t or "ext" in t:
                if "rc-form" in t:
                    t.discard("rc-form")
                    t.add("k-form")
                else:
                    t.discard("k-form")
                    t.add("rc-form")
                return Opaque("K", t)
        if "BoomHashMap" in path and name == "get":
            which = self.which_of(recv(it, args[0]))
            k = recv(it, args[1])
            if which is None or not isinstance(k, Opaque):
                raise Undecided("index look-up with unknown index/key")
            pid, form = self.pid_form(k)
            self.observe("lookup", (form, which))
            if self.hit(pid, form, which):
                return some(Ref(Cell(Int(32, False, bits=[TOP] * 32, tags=frozenset({"id:%s%s:%s" % (pid, form, which)})), "slot")))
            return none()
        if "BoomHashMap" in path:
            self.observe("other-index-op", name)
            raise Undecided("index operation %s is not the key-verified get" % name)
        if "Mphf" in path and name in ("try_hash", "hash") and len(args) == 2:
            which = self.which_of(recv(it, args[0]))
            k = recv(it, args[1])
            if which is None or not isinstance(k, Opaque):
                raise Undecided("hash of an unknown key / in an unknown index")
            pid, form = self.pid_form(k)
            self.observe("lookup", (form, which))
            self.observe("keyless-lookup", (form, which))
            if self.hit(pid, form, which):
                slot = Int(64, False, bits=[TOP] * 64, tags=frozenset({"slot:true:%s%s:%s" % (pid, form, which)}))
                return some(slot) if name == "try_hash" else slot
            if name == "hash":
                raise Undecided("Mphf::hash of a key that was not used to build the function (arbitrary result / panic)")
            if self.choose("alias:%s%s:%s" % (pid, form, which), (False, True)):
                return some(Int(64, False, bits=[TOP] * 64, tags=frozenset({"slot:alias:%s%s:%s" % (pid, form, which)})))
            return none()
        # slot -> node id (a Vec<u32> / slice stored next to the hash function, inside the same index value)
        if name in ("get", "index", "get_unchecked") and len(args) == 2 and isinstance(args[1], Int) and any(x.startswith("slot:") for x in tags_of(args[1])):
            cont = recv(it, args[0])
            if isinstance(cont, Opaque) and self.which_of(cont):
                st = [x for x in tags_of(args[1]) if x.startswith("slot:")][0].split(":")
                kind, rest = st[1], ":".join(st[2:])
                idv = Int(32, False, bits=[TOP] * 32, tags=frozenset({("id:%s" % rest) if kind == "true" else ("id:alias/%s" % rest)}))
                r_ = Ref(Cell(idv, "node-id"))
                return some(r_) if name == "get" else r_
        if "PackedDnaStringSet" in path and name == "get" and len(args) == 2:
            ids = [x for x in tags_of(args[1]) if x.startswith("id:")]
            if ids:
                return Opaque("DnaStringSlice", {"node-seq", "of-" + ids[0]})
        if fn.get("trait") == "Vmer" and name in ("term_kmer", "first_kmer", "last_kmer") and args:
            sq = recv(it, args[0])
            of = [x for x in tags_of(sq) if x.startswith("of-id:")]
            if of:
                sd = dir_of(args[1]) if name == "term_kmer" else (LEFT if name == "first_kmer" else RIGHT)
                return Opaque("K", {"kmer", "end-of", of[0], "endside-%s" % sd})
        if name in ("eq", "ne") and fn.get("trait", "").endswith("PartialEq") and len(args) == 2:
            a, b = recv(it, args[0]), recv(it, args[1])
            if isinstance(a, Opaque) and isinstance(b, Opaque):
                for x, y in ((a, b), (b, a)):
                    tx = tags_of(x)
                    if "end-of" in tx and "end-of" not in tags_of(y):
                        of = [t for t in tx if t.startswith("of-id:")][0][6:]
                        side = [t for t in tx if t.startswith("endside-")][0][8:]
                        pid, form = self.pid_form(y)
                        if of.startswith("alias/"):
                            same = False          # the aliased node's end k-mer is some other k-mer (the probe is absent from this index)
                        else:
                            # the node found for (pid form : which): its <which>-side end IS that probe form
                            f2, which = of.rsplit(":", 1)
                            wside = LEFT if which == "left_order" else RIGHT
                            if str(wside) == side and f2 == pid + form:
                                same = True
                            elif str(wside) == side and f2 == pid + ("k" if form == "rc" else "rc"):
                                same = self.choose("kmer-is-its-own-rc", (False, True))
                            else:
                                raise Undecided("comparison of a probe with the other end of a node")
                        return mkbool(same if name == "eq" else not same)
                fa, fb = self.pid_form(a), self.pid_form(b)
                if ("kmer" in tags_of(a) or "ext" in tags_of(a)) and ("kmer" in tags_of(b) or "ext" in tags_of(b)) and fa[0] == fb[0]:
                    same = True if fa[1] == fb[1] else self.choose("kmer-is-its-own-rc", (False, True))
                    return mkbool(same if name == "eq" else not same)
        return NotImplemented

    def opaque_index(self, it, v, idx, base):
        if isinstance(idx, Int) and any(x.startswith("slot:") for x in tags_of(idx)) and self.which_of(v):
            st = [x for x in tags_of(idx) if x.startswith("slot:")][0].split(":")
            kind, rest = st[1], ":".join(st[2:])
            return Ref(Cell(Int(32, False, bits=[TOP] * 32, tags=frozenset({("id:%s" % rest) if kind == "true" else ("id:alias/%s" % rest)})), "node-id"))
        return None


# =========================================================================== B.3 find_link

class LinkOracles(IndexLayer):
    DOMAINS = {"hit:k:left_order": (False, True), "hit:k:right_order": (False, True),
               "hit:rc:left_order": (False, True), "hit:rc:right_order": (False, True), "kmer-is-its-own-rc": (False, True)}

    def __init__(self, script, stranded, d):
        Oracles.__init__(self, script)
        self.fixed("stranded", stranded)
        self.fixed("dir", d)

    def on_call(self, it, fn, args, dest_ty, term, caller):
        path = fn.get("path", "")
        name = path.split("::")[-1]
        if is_print_call(fn):
            return Opaque(dest_ty, {"fmt"})
        return self.index_call(it, fn, args, dest_ty, term, caller)


def find_link_spec(g):
    stranded, d = g("stranded"), g("dir")
    if d == LEFT:
        if g("hit:k:right_order"):
            return ("Some", "k:right_order", RIGHT, False)
        if not stranded and g("hit:rc:left_order"):
            return ("Some", "rc:left_order", LEFT, True)
        return ("None",)
    if g("hit:k:left_order"):
        return ("Some", "k:left_order", LEFT, False)
    if not stranded and g("hit:rc:right_order"):
        return ("Some", "rc:right_order", RIGHT, True)
    return ("None",)


def link_outcome(r):
    if isinstance(r, Adt) and r.name.endswith("Option"):
        if r.variant == 0:
            return ("None",)
        t = r.fields[0]
        if isinstance(t, Tup) and len(t.fields) == 3:
            idv, sd, rc = t.fields
            ident = None
            for tg in tags_of(idv):
                if tg.startswith("id:"):
                    ident = tg[3:]
            return ("Some", ident, dir_of(sd), bool(rc.val) if isinstance(rc, Int) and rc.is_conc() else "?")
    return ("?", repr(r))


def find_link_table(F, rep, rule="C03.1"):
    try:
        body = pub_fn(F, "find_link")
    except Unsupported as e:
        rep.violated(rule, "find_link", str(e), witness={"kind": "anchor-missing"})
        return
    for stranded in (False, True):
        for d in (LEFT, RIGHT):
            def mk(script, stranded=stranded, d=d):
                return LinkOracles(script, stranded, d)

            def run(h, stranded=stranded, d=d):
                it = Interp(F, False, h)
                g = graph_value(F, stranded)
                return link_outcome(it.call_body(body, [Ref(Cell(g, "graph")), Opaque("K", {"kmer", "k-form"}), dir_v(d)]))
            leaves = explore(mk, run)

            def show(o):
                if o == ("None",):
                    return "None"
                if o[0] == "Some":
                    return "Some(node found by %s, arrival side %s, flipped=%s)" % (o[1], dir_name(o[2]) if o[2] in (0, 1) else o[2], o[3])
                return repr(o)
            check_table(rep, rule, "find_link/stranded=%s/dir=%s" % (stranded, dir_name(d)), leaves, find_link_spec, LinkOracles.DOMAINS,
                        "find_link(kmer, %s), stranded=%s" % (dir_name(d), stranded), site=F.site(body, body["line"]), show=show)
            # C06.5 / C19.2: when stranded the reverse-complement index is never consulted; only `get` is used
            bad = None
            for a, out, h in leaves:
                for (form, which) in h.obs.get("lookup", []):
                    if stranded and form == "rc":
                        bad = (a, "the reverse-complement k-mer is looked up in a stranded graph")
            rep.evaluations += len(leaves)
            key = "find_link/strand-guard/stranded=%s/dir=%s" % (stranded, dir_name(d))
            if bad:
                rep.violated(rule, key, "find_link: %s  [row %s]" % (bad[1], bad[0]), site=F.site(body, body["line"]),
                             witness={"kind": "row", "row": {k: str(v) for k, v in bad[0].items()}})
            else:
                rep.holds(rule, key, "reverse-complement look-ups happen only when unstranded")


# =========================================================================== find_edges

class EdgesOracles(IndexLayer):
    """find_edges: one probe per extension base; each probe is resolved through the index layer (whatever find_link / its helpers do)"""

    def __init__(self, script, d):
        Oracles.__init__(self, script)
        self.fixed("dir", d)
        self.d = d

    def on_call(self, it, fn, args, dest_ty, term, caller):
        path = fn.get("path", "")
        name = path.split("::")[-1]
        if is_print_call(fn):
            return Opaque(dest_ty, {"fmt"})
        if "PackedDnaStringSet" in path and name == "get" and not any(x.startswith("id:") for x in tags_of(args[1])):
            return Opaque("DnaStringSlice", {"node-seq", "own-node"})
        if fn.get("trait") == "Vmer" and name in ("term_kmer", "first_kmer", "last_kmer") and "own-node" in tags_of(recv(it, args[0])):
            sd = dir_of(args[1]) if name == "term_kmer" else (LEFT if name == "first_kmer" else RIGHT)
            self.observe("term", sd)
            return Opaque("K", {"term", "side-%s" % sd})
        if path.startswith("Exts::") and name == "has_ext":
            sd = dir_of(args[1])
            b = args[2].val if isinstance(args[2], Int) and args[2].is_conc() else None
            self.observe("has_ext", (sd, b))
            return mkbool(self.choose("e%s" % b, (False, True)))
        if path.startswith("Exts::") and name == "get" and len(args) == 2 and "node-exts" in tags_of(recv(it, args[0])):
            sd = dir_of(args[1])
            out = []
            for b in range(4):
                self.observe("has_ext", (sd, b))
                if self.choose("e%s" % b, (False, True)):
                    out.append(Int(8, False, val=b))
            return VecV(out)
        if fn.get("trait") == "Kmer" and name in ("extend", "extend_left", "extend_right"):
            k = recv(it, args[0])
            sd = dir_of(args[2]) if name == "extend" else (LEFT if name == "extend_left" else RIGHT)
            b = args[1].val if isinstance(args[1], Int) and args[1].is_conc() else None
            self.observe("extend", (frozenset(tags_of(k)), sd, b))
            return Opaque("K", {"ext", "kmer", "k-form", "base-%s" % b})
        if name == "find_link" and len(args) == 3:
            self.observe("find_link", (None, dir_of(args[2])))
        return self.index_call(it, fn, args, dest_ty, term, caller)

    def opaque_index(self, it, v, idx, base):
        if "exts-vec" in tags_of(v):
            return Ref(Cell(Opaque(EXTS, {"node-exts"}), "exts[node]"))
        return IndexLayer.opaque_index(self, it, v, idx, base)

    def opaque_field(self, it, v, i, fty):
        # the node's raw extension byte (read by bit tricks / table look-ups instead of has_ext): the side being listed carries exactly the
        # extensions of this row, the other side none
        if isinstance(v, Opaque) and "node-exts" in tags_of(v) and i == 0:
            m = 0
            for b in range(4):
                self.observe("has_ext", (self.d, b))
                if self.choose("e%s" % b, (False, True)):
                    m |= 1 << (b + (4 if self.d == RIGHT else 0))
            return Int(8, False, val=m)
        return None


def find_edges_table(F, rep, rule="C03.3"):
    try:
        body = pub_fn(F, "find_edges")
    except Unsupported as e:
        rep.violated(rule, "find_edges", str(e), witness={"kind": "anchor-missing"})
        return
    for d, stranded in ((LEFT, False), (RIGHT, False), (LEFT, True), (RIGHT, True)):
        def mk(script, d=d):
            return EdgesOracles(script, d)

        def run(h, d=d, stranded=stranded):
            it = Interp(F, False, h)
            g = graph_value(F, stranded)
            r = it.call_body(body, [Ref(Cell(g, "graph")), Int(64, False, bits=[TOP] * 64, tags=frozenset({"node"})), dir_v(d)])
            if not isinstance(r, VecV):
                raise Unsupported("edge list is %r" % (r,))
            out = []
            for e in r.elems:
                ident = None
                for t in tags_of(e.fields[0]):
                    if t.startswith("id:"):
                        ident = t[3:]
                out.append((ident, dir_of(e.fields[1]), bool(e.fields[2].val) if isinstance(e.fields[2], Int) and e.fields[2].is_conc() else "?"))
            return tuple(out)
        try:
            leaves = explore(mk, run, max_runs=20000)
        except Unsupported as e:
            rep.inconclusive(rule, "find_edges/dir=%s%s" % (dir_name(d), "/stranded" if stranded else ""), "find_edges: %s" % e)
            continue
        problems = []
        for a, out, h in leaves:
            rep.evaluations += 1
            if isinstance(out, tuple) and out and out[0] in ("inconclusive", "diverge"):
                problems.append(("%s" % (out,), a, out[0] == "inconclusive"))
                continue
            # specification: for every extension base present, the probe resolves as find_link specifies (unstranded graph); a probe that is
            # no node end in either index yields no edge — whatever a keyless hash says about it
            want = []
            for b in range(4):
                if not a.get("e%d" % b):
                    continue
                pid = "b%d/" % b
                fwd_which, fwd_side = ("right_order", RIGHT) if d == LEFT else ("left_order", LEFT)
                rc_which, rc_side = ("left_order", LEFT) if d == LEFT else ("right_order", RIGHT)
                if a.get("hit:%sk:%s" % (pid, fwd_which)):
                    want.append(("%sk:%s" % (pid, fwd_which), fwd_side, False))
                elif a.get("hit:%src:%s" % (pid, rc_which)) and not stranded:
                    # (a stranded graph never identifies a k-mer with its reverse complement: no edge through the rc probe)
                    want.append(("%src:%s" % (pid, rc_which), rc_side, True))
            if list(out) != want:
                problems.append(("edges reported: %s; the extensions present resolve to %s (an extension whose k-mer is no node end yields no edge)" % (list(out), want), a, False))
            for sd in h.obs.get("term", []):
                if sd != d:
                    problems.append(("the terminal k-mer of the %s end is used for the %s side" % (dir_name(sd) if sd in (0, 1) else sd, dir_name(d)), a, False))
            for (sd, b) in h.obs.get("has_ext", []):
                if sd != d:
                    problems.append(("extensions are tested on the %s side for %s edges" % (dir_name(sd) if sd in (0, 1) else sd, dir_name(d)), a, False))
            for (kt, sd, b) in h.obs.get("extend", []):
                if sd != d or "term" not in kt:
                    problems.append(("the probe k-mer is not the terminal k-mer extended on the %s side" % dir_name(d), a, False))
            for (b, sd) in h.obs.get("find_link", []):
                if sd != d:
                    problems.append(("find_link is asked in direction %s for %s edges" % (dir_name(sd) if sd in (0, 1) else sd, dir_name(d)), a, False))
            asked = sorted(b for (sd, b) in h.obs.get("has_ext", []))
            if asked != [0, 1, 2, 3]:
                problems.append(("extension bases tested are %s, not 0..3" % asked, a, False))
        key = "find_edges/dir=%s%s" % (dir_name(d), "/stranded" if stranded else "")
        hard = [p for p in problems if not p[2]]
        if hard:
            rep.violated(rule, key, "find_edges(%s)%s: %s  [row %s]" % (dir_name(d), " on a stranded graph" if stranded else "", hard[0][0],
                                                                        {k: v for k, v in hard[0][1].items() if v}), site=F.site(body, body["line"]),
                         witness={"kind": "row", "row": {k: str(v) for k, v in hard[0][1].items()}, "count": len(hard)})
        elif problems:
            rep.inconclusive(rule, key, "find_edges: %s" % problems[0][0])
        else:
            rep.holds(rule, key, "find_edges(%s): on all %d rows (extension present / absent per base; each probe a node end in the same-strand index, in the "
                      "reverse-complement index, or in neither) one edge per extension whose probe is a node end, with the arrival side and flip find_link "
                      "specifies; probes built from the %s-end k-mer in direction %s" % (dir_name(d), len(leaves), dir_name(d), dir_name(d)), sample={"rows": len(leaves)})


# =========================================================================== B.4 pruning

ITEM_STATES = ("none", "ext-nolink", "ext-link-invalid", "ext-link-valid", "ext-link-self")


class ActiveItemOracles(Oracles):
    """per (side, base) item states; one item is enumerated, the others sit in a background state"""

    def __init__(self, script, active, background, states):
        Oracles.__init__(self, script)
        self.active = active
        self.background = background
        self.states = states

    def state(self, side, b):
        if (side, b) == self.active:
            return self.choose("item", self.states)
        return self.background


class ValidExtsOracles(ActiveItemOracles):
    def __init__(self, script, active, background, valid_given):
        ActiveItemOracles.__init__(self, script, active, background, ITEM_STATES if valid_given else ITEM_STATES[:2] + ITEM_STATES[3:])
        # "ext-link-self": the probe resolves to the node itself (a self-link: tandem repeat / hairpin), which is valid
        self.valid_given = valid_given

    def on_call(self, it, fn, args, dest_ty, term, caller):
        path = fn.get("path", "")
        name = path.split("::")[-1]
        if path.startswith("graph::Node::<"):
            if name == "exts":
                return self.node_exts()
            if name == "sequence":
                return Opaque("DnaStringSlice", {"node-seq"})
        if "PackedDnaStringSet" in path and name == "get" and len(args) == 2 and "node" in tags_of(args[1]):
            return Opaque("DnaStringSlice", {"node-seq"})
        if fn.get("trait") == "Vmer" and name in ("first_kmer", "last_kmer", "term_kmer"):
            sd = LEFT if name == "first_kmer" else (RIGHT if name == "last_kmer" else dir_of(args[1]))
            return Opaque("K", {"term", "end-%s" % sd})
        if path.startswith("Exts::") and name == "has_ext" and "node-exts" in tags_of(recv(it, args[0])):
            sd = dir_of(args[1])
            b = args[2].val if isinstance(args[2], Int) and args[2].is_conc() else None
            return mkbool(self.state(sd, b) != "none")
        if path.startswith("Exts::") and name == "get" and len(args) == 2 and "node-exts" in tags_of(recv(it, args[0])):
            sd = dir_of(args[1])
            return VecV([Int(8, False, val=b) for b in range(4) if self.state(sd, b) != "none"])
        if fn.get("trait") == "Kmer" and name in ("extend", "extend_left", "extend_right"):
            k = recv(it, args[0])
            sd = dir_of(args[2]) if name == "extend" else (LEFT if name == "extend_left" else RIGHT)
            b = args[1].val if isinstance(args[1], Int) and args[1].is_conc() else None
            end = None
            for t in tags_of(k):
                if t.startswith("end-"):
                    end = t[4:]
            self.observe("extend", (end, sd, b))
            return Opaque("K", {"ext", "item-%s-%s" % (sd, b)})
        if name == "find_link":
            k = recv(it, args[1])
            sd = dir_of(args[2])
            item = None
            for t in tags_of(k):
                if t.startswith("item-"):
                    p = t.split("-")
                    item = (int(p[1]), int(p[2]))
            if item is None:
                raise Undecided("find_link on an unknown probe")
            self.observe("find_link", (item, sd))
            st = self.state(*item)
            if st in ("ext-link-invalid", "ext-link-valid", "ext-link-self"):
                tg = {"target-%d-%d" % item} | ({"self-id"} if st == "ext-link-self" else set())
                return some(Tup([Int(64, False, bits=[TOP] * 64, tags=frozenset(tg)), dir_v(LEFT), mkbool(False)]))
            return none()
        if ("BitSet" in path or "bit_set" in path) and name == "contains":
            item = None
            for t in tags_of(args[1]):
                if t.startswith("target-"):
                    p = t.split("-")
                    item = (int(p[1]), int(p[2]))
            if item is None:
                raise Undecided("validity asked for an unknown node id")
            self.observe("valid-asked", item)
            return mkbool(self.state(*item) in ("ext-link-valid", "ext-link-self"))
        return NotImplemented

    def node_exts(self):
        """the node's extension byte, concretely: the bit of (side, base) is set unless the item's state is `none` — so the code may test,
        list, copy or mask it any way it likes"""
        m = 0
        for sd in (LEFT, RIGHT):
            for b in range(4):
                if self.state(sd, b) != "none":
                    m |= 1 << (b + (4 if sd == RIGHT else 0))
        return Adt(EXTS, 0, [Int(8, False, val=m)])

    def opaque_index(self, it, v, idx, base):
        # the node's own entry of the extensions table (read directly instead of through the Node wrapper)
        if "exts-vec" in tags_of(v) and "node" in tags_of(idx):
            return Ref(Cell(self.node_exts(), "exts[node]"))
        return None

    def unknown_compare(self, it, op, a, b):
        # comparisons between node ids: the node being pruned vs. the node a probe resolved to
        if op in ("Eq", "Ne"):
            ta, tb = tags_of(a), tags_of(b)
            for x, y in ((ta, tb), (tb, ta)):
                if "node" in x and any(t.startswith("target-") for t in y):
                    same = "self-id" in y
                    return same if op == "Eq" else not same
        return None


def exts_byte(items_kept):
    v = 0
    for (sd, b) in items_kept:
        v |= 1 << (b + (4 if sd == RIGHT else 0))
    return v


def get_valid_exts_table(F, rep, rule="C03.4"):
    try:
        body = pub_fn(F, "get_valid_exts")
    except Unsupported as e:
        rep.violated(rule, "get_valid_exts", str(e), witness={"kind": "anchor-missing"})
        return
    problems = []
    rows = 0
    items = [(sd, b) for sd in (LEFT, RIGHT) for b in range(4)]
    for valid_given in (True, False):
        for active in items:
            for background in ("none", "ext-link-valid"):
                def mk(script, active=active, background=background, valid_given=valid_given):
                    return ValidExtsOracles(script, active, background, valid_given)

                def run(h, valid_given=valid_given):
                    it = Interp(F, False, h)
                    g = graph_value(F, False)
                    vn = Adt(OPTION, 1, [Ref(Cell(Opaque("bit_set::BitSet", {"valid-set"}), "valid"))]) if valid_given else Adt(OPTION, 0, [])
                    return it.call_body(body, [Ref(Cell(g, "graph")), Int(64, False, bits=[TOP] * 64, tags=frozenset({"node"})), vn])
                for a, out, h in explore(mk, run):
                    rows += 1
                    rep.evaluations += 1
                    row = {"valid_nodes": "Some" if valid_given else "None", "item": "(%s,%d)" % (dir_name(active[0]), active[1]),
                           "state": a.get("item"), "others": background}
                    if isinstance(out, tuple) and out and out[0] in ("inconclusive", "diverge"):
                        problems.append((str(out), row, out[0] == "inconclusive"))
                        continue
                    ev = out.fields[0] if isinstance(out, Adt) and out.name == EXTS else None
                    kept = [it_ for it_ in items if (a.get("item") if it_ == active else background) in ("ext-link-valid", "ext-link-self")]
                    want = exts_byte(kept)
                    if not (isinstance(ev, Int) and ev.is_conc()):
                        problems.append(("the result could not be evaluated (%r)" % (out,), row, True))
                    elif ev.val != want:
                        problems.append(("result %s; an extension is kept exactly when it was present, its probe k-mer resolves to a node and that node is "
                                         "valid: %s" % (bin(ev.val) if isinstance(ev, Int) and ev.is_conc() else ev, bin(want)), row, False))
                    for (end, sd, b) in h.obs.get("extend", []):
                        if str(end) != str(sd):
                            problems.append(("the %s-end k-mer is extended to the %s" % (dir_name(int(end)) if end in ("0", "1") else end, dir_name(sd)), row, False))
                    for (item, sd) in h.obs.get("find_link", []):
                        if item[0] != sd:
                            problems.append(("find_link direction %s for an extension on side %s" % (dir_name(sd), dir_name(item[0])), row, False))
    key = "get_valid_exts"
    hard = [p for p in problems if not p[2]]
    if hard:
        rep.violated(rule, key, "get_valid_exts: %s  [row %s]" % (hard[0][0], hard[0][1]), site=F.site(body, body["line"]),
                     witness={"kind": "row", "row": hard[0][1], "count": len(hard)})
    elif problems:
        rep.inconclusive(rule, key, "get_valid_exts: %s" % problems[0][0])
    else:
        rep.holds(rule, key, "get_valid_exts keeps an extension ⇔ present ∧ link resolves ∧ (no validity set ∨ target valid), for each of the 8 "
                  "(side, base) items in two backgrounds, with and without a validity set (%d rows)" % rows, sample={"rows": rows})


def fix_exts_table(F, rep, rule="C03.4"):
    """fix_exts(mask) replaces the extensions of EVERY node by get_valid_exts(node, mask) — for no mask and for masks that keep all, some
    or none of 3 nodes"""
    from .dt import SetV, bitset_model
    try:
        body = pub_fn(F, "fix_exts")
    except Unsupported as e:
        rep.violated(rule, "fix_exts", str(e), witness={"kind": "anchor-missing"})
        return

    class H(Oracles):
        def on_call(self, it, fn, args, dest_ty, term, caller):
            path = fn.get("path", "")
            name = path.split("::")[-1]
            if name == "len" and path.startswith("graph::"):
                return Int(64, False, val=3)
            if name == "get_valid_exts":
                i = args[1].val if isinstance(args[1], Int) and args[1].is_conc() else None
                m = args[2]
                passed = None
                if isinstance(m, Adt) and m.variant == 1:
                    sv = recv(it, m.fields[0])
                    passed = tuple(sorted(sv.s)) if isinstance(sv, SetV) else "?"
                self.observe("gve", (i, passed))
                return Adt(EXTS, 0, [Int(8, False, val=100 + (i if i is not None else 50))])
            r_ = bitset_model(it, fn, args, dest_ty, term, caller)
            if r_ is not NotImplemented:
                return r_
            return NotImplemented
    names = [f["name"] for f in F.adts["graph::DebruijnGraph"]["variants"][0]["fields"]]
    bnames = [f["name"] for f in F.adts["graph::BaseGraph"]["variants"][0]["fields"]]
    problems, inc = [], []
    masks = [None, (0, 1, 2), (0, 2), (1,), ()]
    for mask in masks:
        h = H()
        it = Interp(F, False, h)
        base = struct_of(F, "graph::BaseGraph", {
            "sequences": Opaque("PackedDnaStringSet", {"sequences"}), "exts": VecV([Adt(EXTS, 0, [Int(8, False, val=i)]) for i in range(3)]),
            "data": Opaque("Vec<D>", {"data-vec"}), "stranded": mkbool(False)})
        g = struct_of(F, "graph::DebruijnGraph", {"base": base, "left_order": Opaque("idx", {"left_order"}), "right_order": Opaque("idx", {"right_order"})})
        cell = Cell(g, "graph")
        marg = Adt(OPTION, 0, []) if mask is None else Adt(OPTION, 1, [Ref(Cell(SetV(mask), "mask"))])
        rep.evaluations += 1
        try:
            it.call_body(body, [Ref(cell), marg])
        except (Undecided, Unsupported) as e:
            inc.append("mask %s: %s" % (mask, e))
            continue
        except Diverge as e:
            problems.append("mask %s: fix_exts diverges: %s" % (mask, e))
            continue
        ex = cell.v.fields[names.index("base")].fields[bnames.index("exts")]
        got = [e.fields[0].val for e in ex.elems] if isinstance(ex, VecV) else None
        if got != [100, 101, 102]:
            stale = [i for i in range(3) if got and got[i] == i]
            problems.append("with validity mask %s the stored extensions are %s: node(s) %s keep their old extensions (every node's extensions must be replaced by "
                            "get_valid_exts(node, mask) — a censored node keeps links to absent / censored k-mers otherwise)" % (mask, got, stale))
        for (i, passed) in h.obs.get("gve", []):
            if passed != (None if mask is None else tuple(mask)):
                problems.append("get_valid_exts(%s) is called with validity set %s, the caller passed %s" % (i, passed, mask))
    if problems:
        rep.violated(rule, "fix_exts", "fix_exts: %s" % problems[0], site=F.site(body, body["line"]), witness={"kind": "lockstep", "count": len(problems)})
    elif inc:
        rep.inconclusive(rule, "fix_exts", "fix_exts: %s" % inc[0])
    else:
        rep.holds(rule, "fix_exts", "fix_exts replaces every node's extensions by get_valid_exts of that node with the caller's validity set (masks: none, all, {0,2}, {1}, {})")


CENS_STATES = ("none", "ext-valid", "ext-censored", "ext-elsewhere", "ext-self")


class CensorOracles(ActiveItemOracles):
    """remove_censored_exts[_sharded]: item states — no extension / target valid / target seen but censored / target not in this shard"""

    def __init__(self, script, active, background, sharded, stranded=False):
        ActiveItemOracles.__init__(self, script, active, background, CENS_STATES)
        self.sharded = sharded
        self.stranded = stranded

    def form_of(self, key):
        t = tags_of(key)
        if "canon" in t:
            return "canon"
        return "rc" if "rcform" in t else "plain"

    def present(self, which, item, form):
        """is the key (the neighbour in the given form: as spelled / reverse-complemented / canonical) an entry of the table?  Tables hold
        canonical k-mers when unstranded and the k-mers as observed when stranded."""
        st = self.state(*item)
        x_in = (st in ("ext-valid", "ext-self")) if which == "valid" else (st in ("ext-valid", "ext-censored", "ext-self"))
        if form != "plain" or not self.stranded:
            flip = self.choose("canonical-form-of-%s-%s-is-its-rc" % item, (False, True)) if item == self.active else False
        if not self.stranded:
            if form == "canon":
                return x_in
            return x_in and (flip if form == "rc" else not flip)
        # stranded: the reverse complement is a different k-mer with its own fate
        def rc_in():
            if item != self.active:
                return False
            return self.choose("rc-of-%s-%s-in-%s-table" % (item + (which,)), (False, True))
        if form == "plain":
            return x_in
        if form == "rc":
            return rc_in()
        return rc_in() if flip else x_in

    def item_of(self, v):
        for t in tags_of(v):
            if t.startswith("item-"):
                p = t.split("-")
                return (int(p[1]), int(p[2]))
        return None

    def on_call(self, it, fn, args, dest_ty, term, caller):
        path = fn.get("path", "")
        name = path.split("::")[-1]
        if path.startswith("Exts::") and name == "has_ext" and "in-exts" in tags_of(recv(it, args[0])):
            sd = dir_of(args[1])
            b = args[2].val if isinstance(args[2], Int) and args[2].is_conc() else None
            return mkbool(self.state(sd, b) != "none")
        if path.startswith("Exts::") and name == "has_ext" and "other-exts" in tags_of(recv(it, args[0])):
            return mkbool(False)
        if fn.get("trait") == "Kmer" and name in ("extend", "extend_left", "extend_right"):
            sd = dir_of(args[2]) if name == "extend" else (LEFT if name == "extend_left" else RIGHT)
            b = args[1].val if isinstance(args[1], Int) and args[1].is_conc() else None
            return Opaque("K", {"ext", "plain", "item-%s-%s" % (sd, b)})
        if fn.get("trait") == "Kmer" and name in ("min_rc", "min_rc_flip"):
            k = recv(it, args[0])
            r = Opaque("K", (tags_of(k) - {"plain", "rcform"}) | {"canon"})
            item = self.item_of(k)
            self.observe("canonicalise", item)
            if name == "min_rc_flip":
                fl = self.choose("canonical-form-of-%s-%s-is-its-rc" % item, (False, True)) if item == self.active else False
                if "rcform" in tags_of(k):
                    fl = not fl
                return Tup([r, mkbool(fl)])
            return r
        if fn.get("trait") == "Mer" and name == "rc" and args and isinstance(recv(it, args[0]), Opaque) and self.item_of(recv(it, args[0])) is not None:
            k = recv(it, args[0])
            t = set(tags_of(k))
            if "canon" in t:
                raise Undecided("reverse complement of a canonicalised neighbour")
            if "rcform" in t:
                t.discard("rcform")
            else:
                t.add("rcform")
            return Opaque("K", t)
        if name in ("binary_search_by_key", "binary_search", "binary_search_by", "contains"):
            # which table? the slice of (K,(Exts,D)) (valid) or the slice of K (all); possibly a sub-range of it
            tab = recv(it, args[0])
            which = "valid" if "valid-table" in tags_of(tab) else ("all" if "all-table" in tags_of(tab) else None)
            key = recv(it, args[1])
            item = self.item_of(key)
            if which is None or item is None:
                raise Undecided("search in an unknown table / for an unknown key")
            self.observe("search", (which, item, "canon" in tags_of(key)))
            st = self.state(*item)
            found = self.present(which, item, self.form_of(key))
            if found and which == "valid":
                lo, hi = tab.info.get("range", (0, self.TABLE_LEN)) if isinstance(tab, Opaque) else (0, self.TABLE_LEN)
                pos = self.pos_of(item)
                found = lo <= pos < hi
            if name == "contains":
                return mkbool(found)
            return Adt(RESULT, 0 if found else 1, [Int(64, False, val=0)])
        # order of the neighbour k-mer relative to the k-mer being pruned (the valid table is sorted)
        if name in ("lt", "le", "gt", "ge", "cmp", "partial_cmp") and len(args) == 2 and fn.get("trait", "").split("::")[-1].split("<")[0] in ("PartialOrd", "Ord"):
            a, b = recv(it, args[0]), recv(it, args[1])
            ia, ib = self.item_of(a) if isinstance(a, Opaque) else None, self.item_of(b) if isinstance(b, Opaque) else None
            cur_a, cur_b = isinstance(a, Opaque) and "cur-kmer" in tags_of(a), isinstance(b, Opaque) and "cur-kmer" in tags_of(b)
            if (ia is not None and cur_b) or (ib is not None and cur_a):
                item = ia if ia is not None else ib
                p = self.pos_of(item)
                c = (p > self.CUR) - (p < self.CUR)       # neighbour ? current
                if ib is not None:
                    c = -c
                if name == "cmp":
                    return Adt("std::cmp::Ordering", c + 1, [])
                if name == "partial_cmp":
                    return some(Adt("std::cmp::Ordering", c + 1, []))
                return mkbool({"lt": c < 0, "le": c <= 0, "gt": c > 0, "ge": c >= 0}[name])
        return NotImplemented

    TABLE_LEN = 3
    CUR = 1

    def pos_of(self, item):
        """position of the neighbour k-mer in the sorted order relative to the current row (index CUR): the current row itself, or
        somewhere before / after it (oracle)"""
        st = self.state(*item)
        if st == "ext-self":
            return self.CUR
        if item != self.active:
            return 2          # background neighbours: one fixed position (only the enumerated item's position is varied)
        return 0 if self.choose("neighbour-%s-%s-sorts" % item, ("before", "after")) == "before" else 2

    def opaque_index(self, it, v, idx, base):
        if "valid-table" in tags_of(v):
            if isinstance(idx, Int) and idx.is_conc():
                if idx.val == self.CUR:
                    return self.row_ref
                return Ref(Cell(Tup([Opaque("K", {"kmer", "plain", "other-row"}), Tup([Opaque(EXTS, {"other-exts"}), Opaque("D", {"data"})])]), "row%d" % idx.val))
            if isinstance(idx, Adt) and idx.name.split("::")[-1] in ("Range", "RangeTo", "RangeFrom", "RangeFull"):
                nm = idx.name.split("::")[-1]
                lo, hi = 0, self.TABLE_LEN
                f = idx.fields
                try:
                    if nm == "Range":
                        lo, hi = f[0].val, f[1].val
                    elif nm == "RangeTo":
                        hi = f[0].val
                    elif nm == "RangeFrom":
                        lo = f[0].val
                except AttributeError:
                    return None
                if lo is None or hi is None:
                    return None
                return Ref(Cell(Opaque(v.ty, set(tags_of(v)), {"range": (lo, hi)}), "sub-table"))
        return None

    def opaque_len(self, it, v):
        if "valid-table" in tags_of(v):
            lo, hi = v.info.get("range", (0, self.TABLE_LEN))
            return Int(64, False, val=hi - lo)
        return None


def censor_tables(F, rep, rule="C03.5"):
    for fname, sharded in (("remove_censored_exts", False), ("remove_censored_exts_sharded", True)):
        try:
            body = pub_fn(F, fname, prefix="filter::")
        except Unsupported as e:
            rep.violated(rule, fname, str(e), witness={"kind": "anchor-missing"})
            continue
        problems = []
        rows = 0
        items = [(sd, b) for sd in (LEFT, RIGHT) for b in range(4)]
        for stranded in (False, True):
            for active in items:
                for background in ("none", "ext-valid"):
                    def mk(script, active=active, background=background, stranded=stranded):
                        return CensorOracles(script, active, background, sharded, stranded)

                    def run(h, stranded=stranded):
                        it = Interp(F, False, h)
                        row = Tup([Opaque("K", {"kmer", "plain", "cur-kmer"}), Tup([Opaque(EXTS, {"in-exts"}), Opaque("D", {"data"})])])
                        h.row_cell = Cell(row, "row")
                        h.row_ref = Ref(h.row_cell)
                        table = Ref(Cell(Opaque("[(K,(Exts,D))]", {"valid-table"}), "valid_kmers"))
                        args = [mkbool(stranded), table]
                        if sharded:
                            args.append(Ref(Cell(Opaque("[K]", {"all-table"}), "all_kmers")))
                        it.call_body(body, args)
                        return h.row_cell.v.fields[1].fields[0]
                    for a, out, h in explore(mk, run):
                        rows += 1
                        rep.evaluations += 1
                        row = {"stranded": stranded, "item": "(%s,%d)" % (dir_name(active[0]), active[1]), "state": a.get("item"), "others": background}
                        if isinstance(out, tuple) and out and out[0] in ("inconclusive", "diverge"):
                            problems.append((str(out), row, out[0] == "inconclusive"))
                            continue
                        ev = out.fields[0] if isinstance(out, Adt) and out.name == EXTS else None

                        def keep(st):
                            if sharded:
                                return st in ("ext-valid", "ext-elsewhere", "ext-self")
                            return st in ("ext-valid", "ext-self")
                        kept = [i_ for i_ in items if keep(a.get("item") if i_ == active else background)]
                        want = exts_byte(kept)
                        if not (isinstance(ev, Int) and ev.is_conc() and ev.val == want):
                            problems.append(("resulting extensions %s; required %s (an extension is removed exactly when its target k-mer is %s)" % (
                                bin(ev.val) if isinstance(ev, Int) and ev.is_conc() else ev, bin(want),
                                "known to this shard but not valid" if sharded else "not a valid k-mer"), row, False))
                        # (no side condition on the form of the search key: whether plain, reverse-complemented or canonical keys are looked
                        #  up is judged by the result — the tables hold canonical k-mers when unstranded, k-mers as observed when stranded)
        hard = [p for p in problems if not p[2]]
        if hard:
            rep.violated(rule, fname, "%s: %s  [row %s]" % (fname, hard[0][0], hard[0][1]), site=F.site(body, body["line"]),
                         witness={"kind": "row", "row": hard[0][1], "count": len(hard)})
        elif problems:
            rep.inconclusive(rule, fname, "%s: %s" % (fname, problems[0][0]))
        else:
            rep.holds(rule, fname, "%s: all %d rows agree with B.4 (8 items × 5 states × 2 backgrounds × stranded/unstranded × which strand is canonical × "
                      "fate of the reverse complement when stranded): an extension is kept exactly when its target is valid%s" % (
                          fname, rows, " or unknown to this shard" if sharded else ""), sample={"rows": rows})


# =========================================================================== best path (C03.7) and path spelling (C03.8)

class SetModel:
    __slots__ = ("s",)

    def __init__(self, s=()):
        self.s = frozenset(s)

    def __repr__(self):
        return "hashset%s" % sorted(self.s)


def ident_of(v):
    if isinstance(v, Int) and v.is_conc():
        return "#%d" % v.val
    for t in tags_of(v):
        if t.startswith("n:"):
            return t[2:]
    return None


class MaxPathOracles(Oracles):
    def __init__(self, script, active_walk):
        Oracles.__init__(self, script)
        self.active_walk = active_walk
        self.walk = -1
        self.step = 0
        self.pushed = []
        self.edge_calls = []
        self.fresh = 0
        self.best = None

    def on_call(self, it, fn, args, dest_ty, term, caller):
        path = fn.get("path", "")
        name = path.split("::")[-1]
        if path.startswith("log::") or "log::" in fn.get("key", "") or "log::" in (fn.get("rpath") or ""):
            if name in ("le", "lt", "ge", "gt"):
                return mkbool(False)
            return Opaque(dest_ty, {"log"})
        if is_print_call(fn):
            return Opaque(dest_ty, {"fmt"})
        if path.startswith("graph::DebruijnGraph") and name == "is_empty":
            return mkbool(False)
        if path.startswith("graph::DebruijnGraph") and name == "len":
            return Int(64, False, val=2)
        if path.startswith("graph::Node::<") and name == "data":
            n = recv(it, args[0])
            return Ref(Cell(Opaque("D", {"data", "data-of:%s" % ident_of(n.fields[0])}), "data"))
        if name in ("call", "call_mut", "call_once") and isinstance(recv(it, args[0]), Opaque):
            f = recv(it, args[0])
            if "score-fn" in tags_of(f):
                return Opaque("f32", {"score"})
            if "solid-fn" in tags_of(f):
                self._solid_n = getattr(self, "_solid_n", 0) + 1
                return mkbool(self.choose("solid@w%d.s%d.e%d" % (self.walk, self.step, self._edge_i), (True, False)))
        if "HashSet" in path or "BitSet" in path or "bit_set::" in path or "BTreeSet" in path:
            if name in ("new", "default", "with_capacity"):
                return SetModel()
            r = args[0]
            sv = it.read(r.cell, r.path)
            if not isinstance(sv, SetModel):
                raise Undecided("hash set op on %r" % (sv,))
            i = ident_of(recv(it, args[1]))
            if i is None:
                raise Undecided("set operation on an unidentified id")
            if name == "insert":
                it.write(r.cell, r.path, SetModel(sv.s | {i}))
                self.observe("insert", i)
                return mkbool(i not in sv.s)
            if name == "contains":
                return mkbool(i in sv.s)
        if path.startswith("graph::Node::<") and name in ("edges", "l_edges", "r_edges"):
            n = recv(it, args[0])
            nid = ident_of(n.fields[0])
            d = dir_of(args[1]) if name == "edges" else (LEFT if name == "l_edges" else RIGHT)
            # a new walk starts when the edges of the best node are requested (the very first request is on the best node)
            if self.best is None:
                self.best = nid
            if nid == self.best_ident(it):
                self.walk += 1
                self.step = 0
            else:
                self.step += 1
            self.edge_calls.append((self.walk, self.step, nid, d))
            self.last_target = self.prev_node if self.step >= 1 else None
            self.prev_node = nid
            self._edge_i = 0
            if self.walk != self.active_walk or self.step > 1:
                return VecV([])
            key = "w%d.s%d" % (self.walk, self.step)
            if self.step == 0:
                n_e = self.choose(key + ".n", (0, 1, 2))
            else:
                n_e = self.choose(key + ".n", (0, 1))
            out = []
            for j in range(n_e):
                if self.step == 0 and j == 0:
                    tgt = self.choose(key + ".e0.target", ("fresh", "best", "seen"))
                    ed = self.choose(key + ".e0.dir", (LEFT, RIGHT))
                elif self.step == 0:
                    tgt = self.choose(key + ".e1.target", ("fresh", "best"))
                    ed = LEFT
                else:
                    tgt = self.choose(key + ".e0.target", ("fresh", "best", "seen"))
                    ed = LEFT
                if tgt == "fresh":
                    self.fresh += 1
                    ident = "f%d" % self.fresh
                    self.fresh_walk = getattr(self, "fresh_walk", {})
                    self.fresh_walk[ident] = self.walk
                elif tgt == "best":
                    ident = self.best_ident(it)
                else:
                    ident = self.last_target if getattr(self, "last_target", None) else self.best_ident(it)
                idv = Int(64, False, bits=[TOP] * 64, tags=frozenset({"n:" + ident})) if not ident.startswith("#") else Int(64, False, val=int(ident[1:]))
                out.append(Tup([idv, dir_v(ed), mkbool(False)]))
            self._edges_now = out
            self.offered = getattr(self, "offered", [])
            self.offered.append((self.walk, self.step, [(ident_of(e.fields[0]), dir_of(e.fields[1])) for e in out]))
            return VecV(out)
        if "VecDeque" in path and name in ("push_front", "push_back"):
            return NotImplemented
        if name == "from_iter" and args and isinstance(args[0], DequeV):
            return VecV(args[0].elems)
        return NotImplemented

    def best_ident(self, it):
        return self.best

    def opaque_binop(self, it, op, a, b, dest_ty):
        if op in ("Gt", "Lt", "Ge", "Le") and ("score" in tags_of(a) or "score" in tags_of(b) or True):
            self._cmp_n = getattr(self, "_cmp_n", 0) + 1
            if self.walk < 0:
                return mkbool(self.choose("best-cmp%d" % self._cmp_n, (True, False)))
            self._edge_i = getattr(self, "_edge_i", 0)
            r = mkbool(self.choose("better@w%d.s%d.c%d" % (self.walk, self.step, self._cmp_n), (True, False)))
            return r
        return None


def how_of_walk(h, w):
    for (ident, d, how, ww) in h.pushed[1:]:
        if ww == w:
            return how
    return None


def max_path_table(F, rep, rule="C03.7"):
    try:
        body = pub_fn(F, "max_path")
    except Unsupported as e:
        rep.violated(rule, "max_path", str(e), witness={"kind": "anchor-missing"})
        return
    problems = []
    rows = 0
    for active in (0, 1):
        def mk(script, active=active):
            return MaxPathOracles(script, active)

        def run(h):
            it = Interp(F, False, h)
            g = graph_value(F, False)
            r = it.call_body(body, [Ref(Cell(g, "graph")), Opaque("F", {"score-fn"}), Opaque("F2", {"solid-fn"})])
            return r
        try:
            leaves = explore(mk, run, max_runs=30000)
        except Unsupported as e:
            rep.inconclusive(rule, "max_path", "max_path: %s" % e)
            return
        for a, out, h in leaves:
            rows += 1
            rep.evaluations += 1
            row = {k: v for k, v in a.items() if not k.startswith("best-cmp")}
            if isinstance(out, tuple) and out and out[0] == "inconclusive":
                problems.append((out[1], row, True))
                continue
            if isinstance(out, tuple) and out and out[0] == "diverge":
                problems.append(("diverges: %s" % out[1], row, False))
                continue
            ids = [ident_of(e.fields[0]) for e in out.elems] if isinstance(out, VecV) else None
            if ids is None:
                problems.append(("result is %r" % (out,), row, True))
                continue
            dup = [x for x in set(ids) if ids.count(x) > 1]
            if dup:
                problems.append(("the returned path %s visits node %s more than once" % (ids, dup[0]), row, False))
                continue
            # everything below is read off the RETURNED path (however it was assembled): [backward finds, last first] + [best] + [forward finds]
            dirs_ = [dir_of(e.fields[1]) for e in out.elems]
            if h.best is None:
                if ids:
                    problems.append(("a path %s is returned although the edges of no node were ever requested" % ids, row, True))
                continue
            if ids.count(h.best) != 1:
                problems.append(("the returned path %s does not contain the best-scoring start node %s exactly once" % (ids, h.best), row, False))
                continue
            bi = ids.index(h.best)
            fwd = list(zip(ids[bi + 1:], dirs_[bi + 1:]))
            bwd = list(reversed(list(zip(ids[:bi], dirs_[:bi]))))
            fw_ = getattr(h, "fresh_walk", {})
            for ident, _d in fwd:
                if fw_.get(ident, 0) != 0:
                    problems.append(("node %s, found on the backward walk, is placed after the start node in the returned path %s" % (ident, ids), row, False))
            for ident, _d in bwd:
                if fw_.get(ident, 1) != 1:
                    problems.append(("node %s, found on the forward walk, is placed before the start node in the returned path %s" % (ident, ids), row, False))
            # continuation of the walk: after stepping through an edge that arrives on side `ed` of node X, the next edges are those of X on
            # the opposite side (otherwise the path leaves a node through the side it entered: consecutive path nodes are not joined by facing edges)
            per_walk = {0: fwd, 1: bwd}
            for (w, st, nid, d) in h.edge_calls:
                if st >= 1 and w in per_walk and st - 1 < len(per_walk[w]):
                    ident, pd = per_walk[w][st - 1]
                    # the orientation stored in the path is the arrival side on the forward walk and its flip on the backward walk
                    ed = pd if w == 0 else 1 - pd
                    # (the arrival side itself is what the harness offered for that edge)
                    offered = [x for (w2, st2, lst) in getattr(h, "offered", []) if w2 == w and st2 == st - 1 for x in lst if x[0] == ident]
                    if offered and offered[0][1] != ed:
                        problems.append(("node %s was reached through an edge arriving on its %s side but is stored in the path with orientation %s (%s walk)" % (
                            ident, dir_name(offered[0][1]), dir_name(pd), "forward" if w == 0 else "backward"), row, False))
                        ed = offered[0][1]
                    if nid != ident:
                        problems.append(("after stepping to node %s the walk continues from node %s" % (ident, nid), row, False))
                    elif d != 1 - ed:
                        problems.append(("the %s walk entered node %s on its %s side and continues through the same side (it must leave through the %s side): "
                                         "consecutive nodes of the returned path are then not joined by facing edges" % (
                                             "forward" if w == 0 else "backward", ident, dir_name(ed), dir_name(1 - ed)), row, False))
    key = "max_path"
    hard = [p for p in problems if not p[2]]
    if hard:
        rep.violated(rule, key, "max_path: %s  [scenario %s]" % (hard[0][0], hard[0][1]), site=F.site(body, body["line"]),
                     witness={"kind": "row", "row": {k: str(v) for k, v in hard[0][1].items()}, "count": len(hard)})
    elif problems:
        rep.inconclusive(rule, key, "max_path: %s" % problems[0][0])
    else:
        rep.holds(rule, key, "max_path: on all %d scripted neighbourhoods (edges leading to fresh nodes, back to the start node, or to the node just "
                  "visited; either walk) the returned path never repeats a node, holds the start node once with forward finds after it and backward finds "
                  "before it, stores each node with its arrival orientation and continues every walk through the facing side" % rows, sample={"scenarios": rows})


def sequence_of_path_table(F, rep, rule="C03.8"):
    try:
        body = pub_fn(F, "sequence_of_path")
    except Unsupported as e:
        rep.violated(rule, "sequence_of_path", str(e), witness={"kind": "anchor-missing"})
        return
    K, L = 3, 5
    problems = []
    rows = 0

    def norm(node, rc, p):
        """a base of a node in normal form: (node, position on the stored strand, complemented?) — position p of the reverse complement is
        the complement of stored position L-1-p, however the code gets at it (a reverse-complemented view, or by hand)"""
        return "B:%s:%d:%d" % (node, (L - 1 - p) if rc else p, 1 if rc else 0)

    class H(Oracles):
        def __init__(self, script):
            Oracles.__init__(self, script)
            self.out = []

        def on_call(self, it, fn, args, dest_ty, term, caller):
            path = fn.get("path", "")
            name = path.split("::")[-1]
            if name == "k" and fn.get("trait") == "Kmer":
                return Int(64, False, val=K)
            if path.startswith("graph::Node::<") and name == "sequence":
                n = recv(it, args[0])
                return Opaque("DnaStringSlice", {"seq"}, {"node": ident_of(n.fields[0]), "rc": False})
            if fn.get("trait") == "Mer" and name == "rc":
                s_ = recv(it, args[0])
                return Opaque("DnaStringSlice", {"seq"}, {"node": s_.info.get("node"), "rc": not s_.info.get("rc")})
            if fn.get("trait") == "Mer" and name == "len":
                return Int(64, False, val=L)
            if fn.get("trait") == "Mer" and name == "get":
                s_ = recv(it, args[0])
                p = args[1].val if isinstance(args[1], Int) and args[1].is_conc() else None
                if p is None or not (0 <= p < L):
                    raise Diverge("base %r of a node of %d bases" % (args[1], L))
                return Int(8, False, bits=[TOP] * 8, tags=frozenset({norm(s_.info.get("node"), bool(s_.info.get("rc")), p)}))
            if path == "complement" and len(args) == 1 and isinstance(args[0], Int):
                t = [x for x in tags_of(args[0]) if x.startswith("B:")]
                if t:
                    nd, fp, c = t[0][2:].rsplit(":", 2)
                    return Int(8, False, bits=[TOP] * 8, tags=frozenset({"B:%s:%s:%d" % (nd, fp, 1 - int(c))}))
            if path.startswith("dna_string::DnaString") and name == "new":
                return Opaque("DnaString", {"out"})
            if path.startswith("dna_string::DnaString") and name == "push":
                t = [x for x in tags_of(args[1]) if x.startswith("B:")]
                self.out.append(t[0] if t else None)
                return Tup([])
            return NotImplemented
    for dirs in [(LEFT,), (RIGHT,), (LEFT, LEFT), (LEFT, RIGHT), (RIGHT, LEFT), (RIGHT, RIGHT), (LEFT, RIGHT, LEFT)]:
        h = H([])
        it = Interp(F, False, h)
        elems = [Tup([Int(64, False, bits=[TOP] * 64, tags=frozenset({"n:p%d" % i})), dir_v(d)]) for i, d in enumerate(dirs)]
        arr = Ref(Cell(Arr(elems), "path"))
        g = graph_value(F, False)
        rows += 1
        rep.evaluations += 1
        try:
            it.call_body(body, [Ref(Cell(g, "graph")), IterV("slice", (arr, 0, len(elems)))])
        except (Undecided, Unsupported) as e:
            problems.append((str(e), dirs, True))
            continue
        except Diverge as e:
            problems.append(("diverges: %s" % e, dirs, False))
            continue
        want = []
        for i, d in enumerate(dirs):
            for p in range(0 if i == 0 else K - 1, L):
                want.append(norm("p%d" % i, d != LEFT, p))
        if any(x is None for x in h.out):
            problems.append(("a pushed base could not be traced to a node position (%s)" % h.out, dirs, True))
        elif h.out != want:
            problems.append(("bases spelled %s; required %s (B:<node>:<stored position>:<complemented>; K=%d, node length %d: every node after the "
                             "first contributes its bases from position K-1 of its oriented sequence)" % (h.out, want, K, L), dirs, False))
    hard = [p for p in problems if not p[2]]
    if hard:
        rep.violated(rule, "sequence_of_path", "sequence_of_path: %s  [path orientations %s]" % (hard[0][0], [dir_name(d) for d in hard[0][1]]),
                     site=F.site(body, body["line"]), witness={"kind": "row", "row": {"dirs": [dir_name(d) for d in hard[0][1]]}})
    elif problems:
        rep.inconclusive(rule, "sequence_of_path", "sequence_of_path: %s" % problems[0][0])
    else:
        rep.holds(rule, "sequence_of_path", "sequence_of_path spells the first node whole and every later node from offset K-1, reverse-complemented exactly "
                  "when its orientation is Right (%d paths)" % rows)


# =========================================================================== index construction (C03.2 / C19.1)

def size_thresholds(F, body, lo=4, hi=1 << 17):
    """integer constants in (lo, hi] that occur in the crate-local code reachable from `body` (closures included): sizes at which the
    code may switch behaviour (block sizes, cut-offs).  Tables that script a collection size use them to pick sizes beyond 0..3."""
    seen = set()
    st = [body["path"]]
    out = set()

    def walk_consts(j):
        if isinstance(j, dict):
            if "int" in j and isinstance(j["int"], int) and lo < j["int"] <= hi and str(j.get("ty", "")) in ("usize", "u16", "u32", "u64", "i32", "i64", "isize"):
                out.add(j["int"])
            for v in j.values():
                walk_consts(v)
        elif isinstance(j, list):
            for v in j:
                walk_consts(v)
    while st:
        p = st.pop()
        if p in seen:
            continue
        seen.add(p)
        b = F.fns.get(p)
        if not b or b.get("derived"):
            continue
        for bb in b["blocks"]:
            for stt in bb["s"]:
                if not stt.get("x"):
                    walk_consts(stt)
                if stt.get("k") == "assign" and stt["rv"].get("k") == "agg" and stt["rv"].get("ak") == "closure":
                    st.append(stt["rv"].get("closure"))
            t = bb["t"]
            if not t.get("x"):
                walk_consts({k: v for k, v in t.items() if k != "f"})
            if t.get("k") == "call" and "const" in t["f"] and "fn" in t["f"]["const"]:
                fr = t["f"]["const"]["fn"]
                for q in (fr.get("rpath"), fr.get("path")):
                    if q and q in F.fns and q not in seen:
                        st.append(q)
    return sorted(out)


def finish_tables(F, rep, rule="C19.1"):
    """finish and finish_serial build the same two indices: keys = first / last k-mers of node i in index order, values = i —
    for graphs of 0, 1, 2 and 3 nodes, whatever the nodes' extensions are (every outcome of a query on them is explored)"""
    results = {}
    for fname in ("finish", "finish_serial"):
        try:
            body = pub_fn(F, fname, prefix="graph::BaseGraph")
        except Unsupported as e:
            rep.violated(rule, fname, str(e), witness={"kind": "anchor-missing"})
            continue

        class H(Oracles):
            def __init__(self, script, n):
                Oracles.__init__(self, script)
                self.built = []
                self.n = n

            def on_call(self, it, fn, args, dest_ty, term, caller):
                path = fn.get("path", "")
                name = path.split("::")[-1]
                if path.startswith("graph::BaseGraph") and name == "len":
                    return Int(64, False, val=self.n)
                if "PackedDnaStringSet" in path and name == "get":
                    i = args[1].val if isinstance(args[1], Int) and args[1].is_conc() else "?"
                    return Opaque("DnaStringSlice", {"seq"}, {"node": i})
                if "PackedDnaStringSet" in path and name == "len":
                    return Int(64, False, val=self.n)
                if fn.get("trait") == "Kmer" and name == "k":
                    return Int(64, False, val=self.KK)
                if (fn.get("trait") in ("Mer", "Vmer") or path.startswith("dna_string::DnaString::")) and name in ("len", "get_kmer") and args \
                        and isinstance(recv(it, args[0]), Opaque) \
                        and "packed" in tags_of(recv(it, args[0])):
                    # the backing string of the packed store read directly: a k-mer at an absolute position is the first / last k-mer of the
                    # node that starts / ends there — or of no node at all
                    if name == "len":
                        return Int(64, False, val=self.node_start(self.n - 1) + self.node_len(self.n - 1) + 5 if self.n else 3)
                    pos = args[1].val if isinstance(args[1], Int) and args[1].is_conc() else None
                    for i in range(self.n):
                        if pos == self.node_start(i):
                            return Opaque("K", {"kmer"}, {"end": "first_kmer", "node": i})
                        if pos == self.node_start(i) + self.node_len(i) - self.KK:
                            return Opaque("K", {"kmer"}, {"end": "last_kmer", "node": i})
                    return Opaque("K", {"kmer"}, {"end": "k-mer at position %s of the packed store (no node's terminal k-mer)" % pos, "node": None})
                if fn.get("trait") == "Mer" and name == "len" and args and isinstance(recv(it, args[0]), Opaque) and "seq" in tags_of(recv(it, args[0])) \
                        and isinstance(recv(it, args[0]).info.get("node"), int):
                    return Int(64, False, val=self.node_len(recv(it, args[0]).info["node"]))
                if fn.get("trait") == "Vmer" and name in ("first_kmer", "last_kmer", "term_kmer", "get_kmer"):
                    s_ = recv(it, args[0])
                    which = name
                    if name == "term_kmer":
                        which = "first_kmer" if dir_of(args[1]) == LEFT else "last_kmer"
                    return Opaque("K", {"kmer"}, {"end": which, "node": s_.info.get("node")})
                if "BoomHashMap" in path and name in ("new", "new_parallel", "new_serial"):
                    keys, vals = args[0], args[1]
                    ks = [(k.info.get("end"), k.info.get("node")) if isinstance(k, Opaque) else repr(k) for k in keys.elems] if isinstance(keys, VecV) else None
                    vs = [v.val if isinstance(v, Int) and v.is_conc() else "?" for v in vals.elems] if isinstance(vals, VecV) else None
                    self.built.append((name, ks, vs))
                    return Opaque("BoomHashMap", {"built-%d" % (len(self.built) - 1)})
                if fn.get("trait") == "Kmer" and name == "empty":
                    return Opaque("K", {"kmer"}, {"end": "empty", "node": None})
                if "Mphf" in path and name in ("new", "new_parallel", "new_serial", "new_parallel_with_keys") and len(args) >= 2:
                    # a keyless minimal perfect hash over the given keys: some bijection keys -> 0..n (here: the reversed order, so that a
                    # confusion of slot and position shows)
                    src = args[1]
                    kv = it.read(src.cell, src.path) if isinstance(src, Ref) else src
                    el = list(kv.elems) if isinstance(kv, (VecV, Arr)) else None
                    if el is None:
                        raise Undecided("Mphf built from %r" % (kv,))
                    ks = [(k.info.get("end"), k.info.get("node")) if isinstance(k, Opaque) else repr(k) for k in el]
                    return Opaque("Mphf", {"mphf"}, {"keys": ks, "perm": list(reversed(range(len(ks))))})
                if "Mphf" in path and name in ("hash", "try_hash") and len(args) == 2:
                    m = recv(it, args[0])
                    k = recv(it, args[1])
                    key = (k.info.get("end"), k.info.get("node")) if isinstance(k, Opaque) else None
                    if isinstance(m, Opaque) and "keys" in m.info and key in m.info["keys"]:
                        slot = Int(64, False, val=m.info["perm"][m.info["keys"].index(key)])
                        return slot if name == "hash" else some(slot)
                    raise Undecided("hash of a key outside the build set")
                if name == "clone" and args:
                    return recv(it, args[0])
                # ---- the order and equality of terminal k-mers.  A valid graph has pairwise different terminal k-mers on a side; their
                # order is arbitrary (oracle: a permutation), and one of them may be the all-A k-mer (= K::empty()), which is then the
                # smallest — an index builder that sorts / compares its keys must cope with every such case
                def kinfo(v):
                    v = v.fields[0] if isinstance(v, Tup) and v.fields else v
                    return (v.info.get("end"), v.info.get("node")) if isinstance(v, Opaque) and "end" in v.info else None
                if name in ("sort", "sort_unstable") and len(args) == 1 and isinstance(args[0], Ref):
                    from .models import seq_of
                    sq = seq_of(it, args[0])
                    if sq is not None:
                        v, off, cnt = sq
                        el = list(v.elems[off:off + cnt])
                        infos = [kinfo(e) for e in el]
                        if el and all(i is not None and i[0] in ("first_kmer", "last_kmer") and i[0] == infos[0][0] for i in infos) and len(set(infos)) == len(infos):
                            end = infos[0][0]
                            order = self.order_of(end, sorted(i[1] for i in infos))
                            el.sort(key=lambda e: order.index(kinfo(e)[1]))
                            it.write(args[0].cell, args[0].path, type(v)(list(v.elems[:off]) + el + list(v.elems[off + cnt:])))
                            return Tup([])
                        if len(el) <= 1:
                            return Tup([])
                if name in ("eq", "ne") and fn.get("trait", "").endswith("PartialEq") and len(args) == 2:
                    a, b = kinfo(recv(it, args[0])), kinfo(recv(it, args[1]))
                    if a is not None and b is not None:
                        same = None
                        if a == b:
                            same = True
                        elif a[0] == b[0]:
                            same = False        # terminal k-mers of two nodes on the same side differ
                        elif "empty" in (a[0], b[0]):
                            x = b if a[0] == "empty" else a
                            same = self.all_a(x[0]) == x[1]
                        if same is not None:
                            return mkbool(same if name == "eq" else not same)
                # queries on a node's extensions: any answer is possible, the indices must not depend on it
                if args and isinstance(recv(it, args[0]), Opaque) and "node-exts" in tags_of(recv(it, args[0])):
                    e = recv(it, args[0])
                    if name in ("num_exts_l", "num_exts_r", "num_ext_dir"):
                        side = name[-1] if name != "num_ext_dir" else str(dir_of(args[1]))
                        return Int(8, False, val=self.choose("#exts(node %s, side %s)" % (e.info.get("node"), side), (0, 1, 2)))
                    if name in ("has_ext", "is_empty"):
                        return mkbool(self.choose("%s(node %s)" % (name, e.info.get("node")), (False, True)))
                return NotImplemented

            def opaque_index(self, it, v, idx, base):
                if "exts-vec" in tags_of(v) and isinstance(idx, Int) and idx.is_conc():
                    return Ref(Cell(Opaque("Exts", {"node-exts"}, {"node": idx.val}), "exts[%d]" % idx.val))
                return None

            def opaque_len(self, it, v):
                if "exts-vec" in tags_of(v) or "data-vec" in tags_of(v):
                    return Int(64, False, val=self.n)
                return None

            KK = 4

            def node_start(self, i):
                return 2 + 23 * i

            def node_len(self, i):
                return 9 + (i % 7)

            def all_a(self, end):
                """which node's `end` k-mer is the all-A k-mer (None: no node's)"""
                if ("order:" + end) in self.memo:
                    o = self.memo["order:" + end]
                    return self.choose("all-A:" + end, (None,) + tuple(o[:1]))
                return self.choose("all-A:" + end, (None,) + tuple(range(min(self.n, 3))))

            def order_of(self, end, nodes):
                import itertools
                if len(nodes) > 3:
                    # large scripted sizes: one order that is not the node order
                    perms = [tuple(reversed(nodes))]
                else:
                    perms = list(itertools.permutations(nodes))
                if ("all-A:" + end) in self.memo and self.memo["all-A:" + end] is not None:
                    first = self.memo["all-A:" + end]
                    perms = [p_ for p_ in perms if p_[0] == first] or perms
                return list(self.choose("order:" + end, perms))

        names = [f["name"] for f in F.adts["graph::DebruijnGraph"]["variants"][0]["fields"]]
        per_n = {}
        bad = False
        inc = None
        rows = 0
        # graph sizes: 0..3, plus one past every size constant the code reachable from this function mentions (block sizes, cut-offs)
        big = [c + 1 for c in size_thresholds(F, body)]
        sizes = [0, 1, 2, 3] + big[-(3 if rep.tier == "thorough" else 2):]
        for n, stranded in [(n_, False) for n_ in sizes] + [(n_, True) for n_ in (0, 2)]:
            def run(h, n=n, stranded=stranded):
                it = Interp(F, False, h)
                if n > 1000:
                    it.max_steps = 400 * n + 1000000
                # the packed store: node i is the view (start[i], length[i]) of one backing string.  The layout scripted here is NOT tight
                # (gaps before, between and after the nodes): the three fields are public, and only (start, length) say where a node is
                PDS = "dna_string::PackedDnaStringSet"
                pf = sorted(f["name"] for f in F.adts.get(PDS, {"variants": [{"fields": []}]})["variants"][0]["fields"])
                if pf == ["length", "sequence", "start"]:
                    seqs = struct_of(F, PDS, {"sequence": Opaque("DnaString", {"packed"}),
                                              "start": VecV([Int(64, False, val=h.node_start(i)) for i in range(n)]),
                                              "length": VecV([Int(32, False, val=h.node_len(i)) for i in range(n)])})
                else:
                    seqs = Opaque("PackedDnaStringSet", {"sequences"})
                me = struct_of(F, "graph::BaseGraph", {"sequences": seqs, "exts": Opaque("Vec", {"exts-vec"}),
                                                        "data": Opaque("Vec", {"data-vec"}), "stranded": mkbool(stranded)})
                return it.call_body(body, [me])
            for a_, r, h in explore(lambda script, n=n: H(script, n), run):
                rows += 1
                rep.evaluations += 1
                if isinstance(r, tuple) and r and r[0] == "inconclusive":
                    inc = inc or r[1]
                    continue
                if isinstance(r, tuple) and r and r[0] == "diverge":
                    rep.violated(rule, fname, "%s diverges on a graph of %d node(s): %s" % (fname, n, r[1]), site=F.site(body, body["line"]))
                    bad = True
                    break
                if not (isinstance(r, Adt) and r.name == "graph::DebruijnGraph"):
                    inc = inc or "%s returns %r" % (fname, r)
                    continue
                # the finished graph IS the graph that was handed in: its strandedness, node extensions, payloads and sequences
                base = r.fields[names.index("base")] if "base" in names else None
                if isinstance(base, Adt) and base.name == "graph::BaseGraph":
                    bn = [f["name"] for f in F.adts["graph::BaseGraph"]["variants"][0]["fields"]]
                    bf = {nm_: base.fields[i_] for i_, nm_ in enumerate(bn)}
                    lost = None
                    st_ = bf.get("stranded")
                    if "stranded" in bf and not (isinstance(st_, Int) and st_.is_conc() and bool(st_.val) == stranded):
                        lost = "its strandedness flag is %r, the graph handed in was %s" % (st_, "stranded" if stranded else "unstranded")
                    elif "exts" in bf and "exts-vec" not in tags_of(bf["exts"]):
                        lost = "its extension vector is not the one handed in (%r)" % (bf["exts"],)
                    elif "data" in bf and "data-vec" not in tags_of(bf["data"]):
                        lost = "its payload vector is not the one handed in (%r)" % (bf["data"],)
                    elif "sequences" in bf and isinstance(bf["sequences"], Adt):
                        sf = {f["name"]: bf["sequences"].fields[i_] for i_, f in enumerate(F.adts[bf["sequences"].name]["variants"][0]["fields"])}
                        st2, ln2 = sf.get("start"), sf.get("length")
                        if isinstance(st2, VecV) and isinstance(ln2, VecV) and all(isinstance(e, Int) and e.is_conc() for e in list(st2.elems) + list(ln2.elems)):
                            if [e.val for e in st2.elems] != [h.node_start(i) for i in range(n)] or [e.val for e in ln2.elems] != [h.node_len(i) for i in range(n)]:
                                lost = "its packed sequences are at (start, length) = %s, the graph handed in had %s" % (
                                    list(zip([e.val for e in st2.elems], [e.val for e in ln2.elems]))[:4], [(h.node_start(i), h.node_len(i)) for i in range(n)][:4])
                        if lost is None and "sequence" in sf and "packed" not in tags_of(sf["sequence"]):
                            lost = "its backing string is not the one handed in"
                    if lost:
                        rep.violated(rule, "%s/base" % fname, "%s on a%s graph of %d node(s): the finished graph is not the graph handed in — %s (every query of the finished graph "
                                     "reads them)" % (fname, " stranded" if stranded else "n unstranded", n, lost), site=F.site(body, body["line"]),
                                     witness={"kind": "base-identity", "n": n, "stranded": stranded})
                        bad = True
                        break
                slots = {}
                for nm in ("left_order", "right_order"):
                    v = r.fields[names.index(nm)]
                    idx = None
                    for t in tags_of(v):
                        if t.startswith("built-"):
                            idx = int(t[6:])
                    slots[nm] = h.built[idx] if idx is not None and idx < len(h.built) else None
                    if slots[nm] is None and isinstance(v, Adt):
                        # a hand-made index: a keyless hash plus a slot -> node id table; read it back as key -> id
                        mph = [f for f in v.fields if isinstance(f, Opaque) and "keys" in f.info]
                        tabs = [f for f in v.fields if isinstance(f, VecV) and all(isinstance(e, Int) and e.is_conc() for e in f.elems)]
                        if len(mph) == 1 and len(tabs) == 1 and len(tabs[0].elems) == len(mph[0].info["keys"]):
                            ks, perm = mph[0].info["keys"], mph[0].info["perm"]
                            slots[nm] = ("mphf+table", list(ks), [tabs[0].elems[perm[i]].val for i in range(len(ks))])
                want = {"left_order": [("first_kmer", i) for i in range(n)], "right_order": [("last_kmer", i) for i in range(n)]}
                for nm in ("left_order", "right_order"):
                    b_ = slots[nm]
                    # the index is a MAP: the order in which the (key, value) pairs are handed to the builder does not matter
                    pairs_ok = b_ is not None and b_[1] is not None and b_[2] is not None and len(b_[1]) == len(b_[2]) == n and \
                        all(isinstance(k_, tuple) for k_ in b_[1]) and sorted(zip([k_[1] if isinstance(k_[1], int) else -1 for k_ in b_[1]], b_[2])) == [(i, i) for i in range(n)] and \
                        all(k_[0] == want[nm][0][0] for k_ in b_[1])
                    if not pairs_ok:
                        rep.violated(rule, "%s/%s" % (fname, nm),
                                     "%s on a graph of %d node(s)%s: the %s index is built from keys %s and values %s; required: the %s of node i paired with i, for "
                                     "every i = 0..n — a node end that is not indexed is never found by find_link" % (
                                         fname, n, (" with " + ", ".join("%s = %s" % kv for kv in sorted(a_.items()))) if a_ else "", nm,
                                         (str(b_[1][:4])[:-1] + (", …]" if len(b_[1]) > 4 else "]")) if b_ and b_[1] is not None else None,
                                         (str(b_[2][:4])[:-1] + (", …]" if len(b_[2]) > 4 else "]")) if b_ and b_[2] is not None else None,
                                         "first k-mer" if nm == "left_order" else "last k-mer"),
                                     site=F.site(body, body["line"]), witness={"kind": "index-identity", "got": repr(b_)[:600], "n": n})
                        bad = True
                if bad:
                    break
                per_n.setdefault(n, (slots, [b_[0] for b_ in h.built]))
            if bad:
                break
        if bad:
            continue
        if inc:
            rep.inconclusive(rule, fname, "%s: %s" % (fname, inc))
            continue
        rep.holds(rule, fname, "%s: for graphs of %s nodes and every answer to a query on the nodes' extensions (%d rows): left index = {first k-mer of node i -> i}, "
                  "right index = {last k-mer of node i -> i}" % (fname, sizes, rows))
        results[fname] = per_n
    if len(results) == 2:
        a, b = results["finish"], results["finish_serial"]
        same = all(n in a and n in b and all((a[n][0][nm] and b[n][0][nm] and a[n][0][nm][1:] == b[n][0][nm][1:]) for nm in ("left_order", "right_order")) for n in (0, 1, 2, 3))
        if same:
            rep.holds(rule, "finish≡finish_serial", "the parallel and the serial builder receive identical keys and values; they differ only in the constructor (%s vs %s)" % (a[3][1], b[3][1]))
        else:
            rep.violated(rule, "finish≡finish_serial", "finish and finish_serial hand different key/value sequences to the index constructor")


def index_usage_rules(F, rep, rule="C19.2"):
    """answers cannot depend on MPHF slot layout: the two index fields are private, of the key-verifying map type,
    and the only operation applied to them anywhere in the crate is `get`"""
    a = F.adts.get("graph::DebruijnGraph")
    if not a:
        rep.violated(rule, "index-fields", "anchor-missing: graph::DebruijnGraph", witness={"kind": "anchor-missing"})
        return
    fields = a["variants"][0]["fields"]
    idx_fields = [(i, f) for i, f in enumerate(fields) if "BoomHashMap" in f["ty"]]
    for i, f in idx_fields:
        key = "field/" + f["name"]
        if f["vis"] == "pub":
            rep.violated(rule, key, "index field %s is public: external code can query it positionally" % f["name"])
        elif "NoKey" in f["ty"] or not f["ty"].startswith("boomphf::hashmap::BoomHashMap<"):
            rep.violated(rule, key, "index field %s has type %s — not the key-verifying BoomHashMap<K, u32>, so absent k-mers can alias a slot" % (f["name"], f["ty"]))
        else:
            rep.holds(rule, key, "index field %s is private and key-verifying (%s)" % (f["name"], f["ty"]))
    if len(idx_fields) < 2:
        rep.inconclusive(rule, "index-fields", "DebruijnGraph no longer has two BoomHashMap end indices; the slot-layout argument is not applicable as written")
    # every operation applied anywhere in the crate to a key-verifying BoomHashMap (the end indices are the only values of that type)
    n_get = 0
    ctor = 0
    for b in F.fns.values():
        if b.get("derived"):
            continue
        for bb in b["blocks"]:
            if bb.get("cleanup"):
                continue
            t = bb["t"]
            if t.get("k") != "call" or "const" not in t["f"] or "fn" not in t["f"]["const"]:
                continue
            fr = t["f"]["const"]["fn"]
            nm = fr.get("path", "")
            if not nm.startswith("boomphf::hashmap::BoomHashMap::<"):
                continue
            meth = nm.split("::")[-1]
            if meth == "get":
                n_get += 1
            elif meth in ("new", "new_parallel", "new_serial", "new_with_mphf"):
                ctor += 1
            elif meth in ("len", "is_empty"):
                pass
            else:
                rep.violated(rule, "use/%s/%s" % (b["path"], meth),
                             "%s applies %s to an end index; only the key-verified `get` keeps answers independent of the MPHF's slot layout" % (b["path"], nm),
                             site=F.site(b, t.get("ln")))
    if n_get == 0:
        rep.inconclusive(rule, "index-lookups", "no key-verified look-up on an end index was found")
    else:
        rep.holds(rule, "index-lookups", "the end indices are only built (%d constructor calls) and queried through the key-verified `get` (%d sites)" % (ctor, n_get))


def _is_graph_field(F, body, e):
    """is the base of this field expression a DebruijnGraph?"""
    base = e[1]
    while isinstance(base, tuple) and base[0] in ("deref", "ref"):
        base = base[1]
    if isinstance(base, tuple) and base[0] in ("param", "var"):
        return C.adt_name(F, body["locals"][base[1]]) == "graph::DebruijnGraph"
    return False


# =========================================================================== C04.1 BaseGraph::combine

def combine_table(F, rep, rule="C04.1"):
    try:
        body = pub_fn(F, "combine", prefix="graph::BaseGraph")
    except Unsupported as e:
        rep.violated(rule, "combine", str(e), witness={"kind": "anchor-missing"})
        return
    PS = "dna_string::PackedDnaStringSet"

    class H(Oracles):
        def __init__(self):
            Oracles.__init__(self)
            self.adds = []

        def on_call(self, it, fn, args, dest_ty, term, caller):
            path = fn.get("path", "")
            name = path.split("::")[-1]
            if path.startswith(PS):
                if name == "new":
                    return Opaque(PS, {"combined-seqs"})
                s_ = recv(it, args[0]) if args else None
                if name == "len":
                    return Int(64, False, val=s_.info.get("n", 0))
                if name == "is_empty":
                    return mkbool(s_.info.get("n", 0) == 0)
                if name == "get":
                    i = args[1].val if isinstance(args[1], Int) and args[1].is_conc() else None
                    return Opaque("DnaStringSlice", {"slice"}, {"of": (s_.info.get("g"), i)})
                if name == "add":
                    self.adds.append(("combined-seqs" in tags_of(s_), info_of_(recv(it, args[1])).get("of")))
                    return Tup([])
            # a whole-sequence iterator / copy of a node's view handed on instead of the view itself: still that node's sequence
            if args and name in ("iter", "into_iter", "to_owned", "clone", "to_dna_string", "by_ref") and isinstance(recv(it, args[0]), Opaque) \
                    and "of" in recv(it, args[0]).info:
                return Opaque(dest_ty or "seq-of-node", {"slice"}, {"of": recv(it, args[0]).info["of"]})
            if is_print_call(fn):
                return Opaque(dest_ty, {"fmt"})
            return NotImplemented

    def info_of_(v):
        return v.info if isinstance(v, Opaque) else {}
    problems = []
    inc = []
    # (strandedness flags, node counts): graphs of equal strandedness incl. empty shard graphs; mixed inputs (non-empty)
    for flags, sizes in (((False, False), [2, 1]), ((True, True), [2, 1]), ((True, False), [2, 1]), ((False, True), [2, 1]), ((True,), [2]), ((), []),
                         ((True, True), [2, 0]), ((True, True), [0, 1]), ((True, True, True), [1, 0, 1]), ((False, False), [0, 2]), ((True,), [0])):
        h = H()
        it = Interp(F, False, h)
        graphs = []
        for gi, st in enumerate(flags):
            graphs.append(struct_of(F, "graph::BaseGraph", {
                "sequences": Opaque(PS, {"seqs"}, {"g": gi, "n": sizes[gi]}),
                "exts": VecV([Adt(EXTS, 0, [Int(8, False, val=10 * gi + j)]) for j in range(sizes[gi])]),
                "data": VecV([Opaque("D", {"d"}, {"d": (gi, j)}) for j in range(sizes[gi])]),
                "stranded": mkbool(st)}))
        src = IterV("owned", (Ref(Cell(VecV(graphs), "graphs")), 0, len(graphs)))
        rep.evaluations += 1
        mixed = len(set(flags)) > 1
        try:
            out = it.call_body(body, [src])
        except (Undecided, Unsupported) as e:
            inc.append(str(e))
            continue
        except Diverge as e:
            if not mixed:
                problems.append("combine panics for graphs with strandedness %s: %s" % (list(flags), e))
            continue
        if mixed:
            problems.append("combining stranded and unstranded graphs %s must be refused, it returns a graph" % (list(flags),))
            continue
        names = [f["name"] for f in F.adts["graph::BaseGraph"]["variants"][0]["fields"]]
        if not (isinstance(out, Adt) and out.name == "graph::BaseGraph"):
            inc.append("result %r" % (out,))
            continue
        ex = out.fields[names.index("exts")]
        da = out.fields[names.index("data")]
        st = out.fields[names.index("stranded")]
        sq = out.fields[names.index("sequences")]
        want_adds = [(True, (gi, j)) for gi in range(len(flags)) for j in range(sizes[gi])]
        if any(a_[1] is None for a_ in h.adds):
            inc.append("a sequence added to the combined store could not be traced to a node of an input graph (%s)" % h.adds)
        elif h.adds != want_adds or "combined-seqs" not in tags_of(sq):
            problems.append("sequences copied: %s; required every sequence of every graph, in order: %s" % (h.adds, want_adds))
        got_e = [e.fields[0].val for e in ex.elems] if isinstance(ex, VecV) else None
        if got_e != [10 * gi + j for gi in range(len(flags)) for j in range(sizes[gi])]:
            problems.append("extensions of the combined graph are %s — not the concatenation of the inputs' extensions in node order" % got_e)
        got_d = [x.info.get("d") for x in da.elems] if isinstance(da, VecV) else None
        if got_d != [(gi, j) for gi in range(len(flags)) for j in range(sizes[gi])]:
            problems.append("payloads of the combined graph are %s — not the concatenation of the inputs' payloads in node order" % got_d)
        want_st = all(flags)
        if not (isinstance(st, Int) and st.is_conc() and bool(st.val) == want_st):
            problems.append("strandedness of the combination of graphs with flags %s and node counts %s is %r" % (list(flags), sizes, st))
    if problems:
        rep.violated(rule, "combine", "BaseGraph::combine: %s" % problems[0], site=F.site(body, body["line"]), witness={"kind": "lockstep", "count": len(problems)})
    elif inc:
        rep.inconclusive(rule, "combine", "BaseGraph::combine: %s" % inc[0])
    else:
        rep.holds(rule, "combine", "BaseGraph::combine concatenates sequences, extensions and payloads of all shard graphs in the same order, keeps the common "
                  "strandedness and refuses mixed inputs")


def no_pruning_in_filter(F, rep, rule="C04.2"):
    """filter_kmers must keep shard-boundary extensions: it reaches no pruning function"""
    root = F.fns.get("filter::filter_kmers")
    if root is None:
        rep.violated(rule, "filter-keeps-boundary-exts", "anchor-missing: filter::filter_kmers", witness={"kind": "anchor-missing"})
        return
    seen = set()
    st = [root["path"]]
    bad = None
    while st:
        p = st.pop()
        if p in seen:
            continue
        seen.add(p)
        b = F.fns.get(p)
        if not b:
            continue
        for bb in b["blocks"]:
            t = bb["t"]
            if t.get("k") == "call" and "const" in t["f"] and "fn" in t["f"]["const"]:
                fr = t["f"]["const"]["fn"]
                q = fr.get("rpath") or fr.get("path")
                if q and any(q.endswith(x) for x in ("remove_censored_exts", "remove_censored_exts_sharded", "::fix_exts", "::get_valid_exts")):
                    bad = (p, q)
                if q and q not in seen:
                    st.append(q)
    if bad:
        rep.violated(rule, "filter-keeps-boundary-exts", "filter_kmers reaches %s (via %s): extensions pointing into other shards would be dropped before the shards are combined" % (bad[1], bad[0]))
    else:
        rep.holds(rule, "filter-keeps-boundary-exts", "filter_kmers reaches no extension-pruning function (%d callees inspected): shard-boundary extensions survive to the combined graph" % len(seen))


# =========================================================================== C03.7b beam search expansion

def beam_expand_table(F, rep, rule="C03.7"):
    """expand_state (used by max_path_beam): a successor state's path never repeats a node"""
    try:
        body = pub_fn(F, "expand_state")
    except Unsupported as e:
        rep.inconclusive(rule, "expand_state", "role discovery (private helper of max_path_beam): %s" % e)
        return
    st_names = [f["name"] for f in F.adts.get("graph::State", {"variants": [{"fields": []}]})["variants"][0]["fields"]]
    status = F.adts.get("graph::Status")
    if not {"path", "score", "status"} <= set(st_names) or not status:
        rep.inconclusive(rule, "expand_state", "role discovery: private types graph::State / graph::Status not found")
        return
    vnames = [v["name"] for v in status["variants"]]

    class H(Oracles):
        def __init__(self, edges, ends):
            Oracles.__init__(self)
            self.edges_of_last = edges
            self.ends = ends

        def on_call(self, it, fn, args, dest_ty, term, caller):
            path = fn.get("path", "")
            name = path.split("::")[-1]
            if is_print_call(fn):
                return Opaque(dest_ty, {"fmt"})
            if path.startswith("graph::Node::<"):
                nd = recv(it, args[0])
                nid = nd.fields[0].val if isinstance(nd.fields[0], Int) and nd.fields[0].is_conc() else None
                if name == "data":
                    return Ref(Cell(Opaque("D", {"data"}), "data"))
                if name in ("edges", "l_edges", "r_edges"):
                    if nid == self.last:
                        return VecV([Tup([Int(64, False, val=t), dir_v(d), mkbool(False)]) for t, d in self.edges_of_last])
                    return VecV([]) if nid in self.ends else VecV([Tup([Int(64, False, val=99), dir_v(LEFT), mkbool(False)])])
            if name in ("call", "call_mut", "call_once") and isinstance(recv(it, args[0]), Opaque):
                return Opaque("f32", {"score"})
            return NotImplemented
    problems = []
    inc = []
    rows = 0
    for prefix in ([0], [0, 1], [2, 0, 1]):
        last = prefix[-1]
        for targets, ends in [(t_, {5}) for t_ in ([], [5], [prefix[0]], [last], [5, prefix[0]], [prefix[0], 6, 7])] + \
                ([([prefix[0]], {5, prefix[0]}), ([5, prefix[0]], {5, prefix[0]})] if prefix[0] != last else []):
            rows += 1
            rep.evaluations += 1
            # `ends`: nodes without onward edges on the far side (a node already on the path may be one of them: a tip reached again
            # through a loop)
            h = H([(t, LEFT) for t in targets], ends=ends)
            h.last = last
            it = Interp(F, False, h)
            g = graph_value(F, False)
            pathv = VecV([Tup([Int(32, False, val=n), dir_v(LEFT)]) for n in prefix])
            fields = {"path": pathv, "score": Opaque("f32", {"score"}), "status": Adt("graph::Status", vnames.index("Active"), [])}
            state = Adt("graph::State", 0, [fields[n] for n in st_names])
            try:
                out = it.call_body(body, [Ref(Cell(g, "graph")), Ref(Cell(state, "state")), Ref(Cell(Opaque("F", {"score-fn"}), "score"))])
            except (Undecided, Unsupported) as e:
                inc.append(str(e))
                continue
            except Diverge as e:
                problems.append("expand_state diverges for path %s with successors %s: %s" % (prefix, targets, e))
                continue
            if not isinstance(out, VecV) or len(out.elems) != len(targets):
                inc.append("result %r" % (out,))
                continue
            for t, ns in zip(targets, out.elems):
                p = ns.fields[st_names.index("path")]
                stt = ns.fields[st_names.index("status")]
                ids = [e.fields[0].val for e in p.elems] if isinstance(p, VecV) else None
                if ids is None:
                    inc.append("successor path %r" % (p,))
                    continue
                if len(set(ids)) != len(ids):
                    problems.append("best-path search: extending the path %s to node %d (already on the path) yields the successor path %s, which repeats a node" % (prefix, t, ids))
                elif t not in prefix and ids != prefix + [t]:
                    problems.append("extending the path %s to the fresh node %d yields %s" % (prefix, t, ids))
                want_status = "Cycle" if t in prefix else ("End" if t in h.ends else "Active")
                if isinstance(stt, Adt) and stt.variant is not None and vnames[stt.variant] != want_status:
                    problems.append("successor reaching node %d from path %s has status %s, required %s" % (t, prefix, vnames[stt.variant], want_status))
    if problems:
        rep.violated(rule, "expand_state", problems[0], site=F.site(body, body["line"]), witness={"kind": "row", "count": len(problems)})
    elif inc:
        rep.inconclusive(rule, "expand_state", "expand_state: %s" % inc[0])
    else:
        rep.holds(rule, "expand_state", "beam-search expansion: a successor path is the old path plus a fresh node; reaching a node already on the path ends the search "
                  "branch (Cycle) without repeating it (%d scenarios)" % rows)


# =========================================================================== is_compressed (only when construction relies on it)

def is_compressed_exact(F):
    """Is `DebruijnGraph::is_compressed` exact — does it return None exactly when no node can be joined to its unique neighbour under the
    step rule of the statement (one edge each way, neither node a single palindromic k-mer when the graph is UNSTRANDED, not the node
    itself, join predicate accepts)?  Returns (True, None) / (False, description of a row it gets wrong) / (None, why undecided).
    It is only an obligation when a construction path branches on its answer (the pinned tree uses it in a debug assertion only)."""
    try:
        body = pub_fn(F, "is_compressed")
    except Unsupported as e:
        return None, str(e)

    class H(Oracles):
        def on_call(self, it, fn, args, dest_ty, term, caller):
            path = fn.get("path", "")
            name = path.split("::")[-1]
            if is_print_call(fn):
                return Opaque(dest_ty, {"fmt"})
            if path.startswith("graph::DebruijnGraph") and name == "len":
                return Int(64, False, val=1)
            if name == "k" and fn.get("trait") == "Kmer":
                return Int(64, False, bits=[TOP] * 64, tags=frozenset({"K"}))
            if path.startswith("graph::Node::<"):
                n = recv(it, args[0])
                nid = n.fields[0].val if isinstance(n, Adt) and isinstance(n.fields[0], Int) and n.fields[0].is_conc() else None
                if name in ("edges", "l_edges", "r_edges"):
                    d = dir_of(args[1]) if name == "edges" else (LEFT if name == "l_edges" else RIGHT)
                    # node 0's Right side has `cnt` edges; the first leads to `neighbour` (node 1, or node 0 itself), arriving at its `arrives`
                    # side: Left = straight on (for node 0 itself: a circle biting its tail), Right = onto the other strand (for node 0 itself:
                    # a hairpin back into the side it left from).  The arrival side of the neighbour has `edges(neighbour,arrival)` edges back.
                    nxt = self.choose("neighbour", (1, 0))
                    arr = self.choose("arrives", (LEFT, RIGHT))
                    if nid == 0 and d == RIGHT:
                        cnt = self.choose("edges(node,Right)", (1, 0, 2))
                        return VecV([Tup([Int(64, False, val=nxt if j == 0 else 1 - nxt), dir_v(arr), mkbool(arr == RIGHT)]) for j in range(cnt)])
                    if (nid == 0 and d == LEFT and nxt == 0 and arr == LEFT) or (nid == 1 and nxt == 1 and d == arr):
                        cnt = self.choose("edges(neighbour,arrival)", (1, 0, 2))
                        return VecV([Tup([Int(64, False, val=0), dir_v(RIGHT), mkbool(arr == RIGHT)]) for _ in range(cnt)])
                    return VecV([])
                if name == "len":
                    return Int(64, False, bits=[TOP] * 64, tags=frozenset({"len-of-%s" % nid}))
                if name == "sequence":
                    return Opaque("DnaStringSlice", {"seq"}, {"node": nid})
                if name == "data":
                    return Ref(Cell(Opaque("D", {"data"}, {"node": nid}), "data"))
            if fn.get("trait") == "Vmer" and name in ("first_kmer", "get_kmer", "last_kmer", "term_kmer"):
                s_ = recv(it, args[0])
                return Opaque("K", {"kmer"}, {"node": s_.info.get("node")})
            if fn.get("trait") == "Kmer" and name == "is_palindrome":
                k = recv(it, args[0])
                return mkbool(self.choose("palindrome(node %s)" % k.info.get("node"), (False, True)))
            if name == "join_test":
                return mkbool(self.choose("join", (True, False)))
            return NotImplemented

        def unknown_compare(self, it, op, a, b):
            ta, tb = tags_of(a), tags_of(b)
            for x, y in ((ta, tb), (tb, ta)):
                if "K" in y and op in ("Eq", "Ne"):
                    for t in x:
                        if t.startswith("len-of-"):
                            v = self.choose("single-k-mer(node %s)" % t[7:], (False, True))
                            return v if op == "Eq" else not v
            return None
    rows = []
    try:
        for stranded in (False, True):
            def run(h, stranded=stranded):
                it = Interp(F, False, h)
                return it.call_body(body, [Ref(Cell(graph_value(F, stranded), "graph")), Ref(Cell(Opaque("S", {"spec"}), "spec"))])
            for a, out, h in explore(lambda script: H(script), run):
                if isinstance(out, tuple) and out and out[0] in ("inconclusive", "diverge"):
                    return None, str(out[1])
                if not (isinstance(out, Adt) and out.variant in (0, 1)):
                    return None, "is_compressed returns %r" % (out,)
                nb = a.get("neighbour", 1)
                if stranded and a.get("arrives", LEFT) == RIGHT:
                    continue        # a stranded graph has no links onto the other strand
                pal = lambda i: (not stranded) and a.get("single-k-mer(node %s)" % i, False) and a.get("palindrome(node %s)" % i, False)
                want_some = a.get("edges(node,Right)", 1) == 1 and a.get("edges(neighbour,arrival)", 1) == 1 and nb != 0 and not pal(0) and not pal(nb) and a.get("join", True)
                # the same node seen from its neighbour's side does not exist in this script (len = 1): only the pair (0, neighbour) is judged
                if bool(out.variant == 1) != bool(want_some):
                    rows.append(("reports" if out.variant == 1 else "misses",
                                 "on a %s graph with %s it answers %s, but the two nodes %s be joined under the step rule (a single palindromic k-mer only "
                                 "stops a path when the graph is unstranded; a node is never joined to itself)" % (
                                     "stranded" if stranded else "unstranded", {k: (dir_name(v) if k == "arrives" else v) for k, v in a.items()},
                                     "`compressed`" if out.variant == 0 else "`not compressed`", "can" if want_some else "cannot")))
    except (Unsupported, Undecided) as e:
        return None, str(e)
    F._is_compressed_rows = rows
    if rows:
        return False, rows[0][1]
    return True, None


def is_compressed_sound_table(F, rep, rule):
    """`is_compressed` must not report a pair of nodes that cannot be joined: the graph route asserts (in debug builds) that its result is
    compressed, so a false report makes re-compression of a valid graph panic.  (That it may MISS a pair is only an obligation where a
    construction path relies on its answer, see the driver table.)"""
    ok, why = is_compressed_exact(F)
    if ok is None:
        rep.inconclusive(rule, "is_compressed/sound", "is_compressed: %s" % why)
        return
    fp = [d for k, d in getattr(F, "_is_compressed_rows", []) if k == "reports"]
    if fp:
        try:
            body = pub_fn(F, "is_compressed")
            site = F.site(body, body["line"])
        except Unsupported:
            site = None
        rep.violated(rule, "is_compressed/sound", "is_compressed reports a pair that cannot be joined: %s — compress_graph asserts on it (debug builds), so re-compressing "
                     "such a graph panics" % fp[0], site=site, witness={"kind": "row", "count": len(fp)})
    else:
        rep.holds(rule, "is_compressed/sound", "is_compressed reports a pair only when the two nodes can be joined under the step rule (one edge each way, distinct nodes, "
                  "no single palindromic k-mer when unstranded, join predicate accepts) — circles, hairpins, both strand modes")
