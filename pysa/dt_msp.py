"""Minimizer scan and shard assignment tables (C07, C08)."""
from . import bv, cfg as C
from .bv import Int, mkbool, ZERO, ONE, TOP, var, atom_int, aff_of, aff_str
from .absint import (Adt, Arr, Cell, Closure, Diverge, FnItem, Harness, Interp, Opaque, Ref, Tup, Undecided,
                     Unsupported, VecV, UNINIT, tags_of, with_tags)
from .dt import (BOTTOM, DIR, LEFT, RIGHT, LinOracles, Oracles, explore, is_print_call)
from .dt_tables import EXTS, recv, struct_of
from .dt_seq import affs, aff_eq, aff_val, info_of
from .models import IterV, some, none, deref_val

MINPOS = "msp::MinPos"
ORD = "std::cmp::Ordering"


# =========================================================================== C07.1 ordering of (score, position)

def minpos_order_tables(F, rep, rule="C07.1"):
    names = [f["name"] for f in F.adts.get(MINPOS, {"variants": [{"fields": []}]})["variants"][0]["fields"]]
    if not {"val", "pos", "kmer"} <= set(names):
        rep.inconclusive(rule, "MinPos/fields", "role discovery: the (private) MinPos record has fields %s; the order tables need (val, pos, kmer)" % names)
        return
    results = {}
    for path, nm in (("<msp::MinPos<P> as std::cmp::Ord>::cmp", "cmp"), ("<msp::MinPos<P> as std::cmp::PartialOrd>::partial_cmp", "partial_cmp")):
        body = F.fns.get(path)
        if body is None:
            rep.inconclusive(rule, "MinPos::" + nm, "role discovery: no %s on the (private) MinPos record" % path)
            continue
        problems = []
        inc = []
        rows = 0

        def mk(script):
            return LinOracles(script)

        def mkv(tag, h=None, bvmode=False):
            if bvmode:
                # positions are < 2^32 (scan asserts the sequence length)
                return struct_of(F, MINPOS, {"val": bv.sym_int(64, "v" + tag), "pos": bv.sym_int(64, "p" + tag, nbits=32), "kmer": Opaque("P", {"kmer"})})
            return struct_of(F, MINPOS, {"val": atom_int(64, "v" + tag), "pos": atom_int(64, "p" + tag), "kmer": Opaque("P", {"kmer"})})

        def run(h):
            it = Interp(F, False, h)
            return it.call_body(body, [Ref(Cell(mkv("1"), "a")), Ref(Cell(mkv("2"), "b"))])
        for a, out, h in explore(mk, run):
            rows += 1
            rep.evaluations += 1
            if isinstance(out, tuple) and out and out[0] == "inconclusive":
                inc.append(out[1])
                continue
            o = out
            if nm == "partial_cmp":
                if not (isinstance(out, Adt) and out.variant == 1):
                    problems.append("partial_cmp returns %r (must be Some)" % (out,))
                    continue
                o = out.fields[0]
            got = o.variant if isinstance(o, Adt) and o.name == ORD else None
            vlt, veq = h.truth("Lt", {"v1": 1, "v2": -1}, 0), h.truth("Eq", {"v1": 1, "v2": -1}, 0)
            if veq is None or (not veq and vlt is None):
                inc.append("the score comparison is not decided (%s)" % h.obs.get("cmp"))
                continue
            if not veq:
                want = 0 if vlt else 2
            else:
                plt, peq = h.truth("Lt", {"p1": 1, "p2": -1}, 0), h.truth("Eq", {"p1": 1, "p2": -1}, 0)
                if peq is None or (not peq and plt is None):
                    # positions were not consulted although scores tie
                    problems.append("equal scores: the result %s is produced without comparing the positions — ties must go to the larger position" % got)
                    continue
                want = 1 if peq else (2 if plt else 0)
            if got != want:
                problems.append("(score, position) order: %s gives %s, required %s (smaller score first; equal scores: LARGER position first)" % (
                    {k: v for k, v in h.obs.get("cmp", [])}, {0: "Less", 1: "Equal", 2: "Greater"}.get(got, got), {0: "Less", 1: "Equal", 2: "Greater"}[want]))
            results.setdefault(nm, []).append((tuple(h.obs.get("cmp", [])), got))
        # bit-level support: the order must depend on every bit of both scores
        try:
            class Cap(LinOracles):
                def __init__(self):
                    LinOracles.__init__(self, [])
                    self.support = set()

                def unknown_compare(self, it, op, x, y):
                    for z in (x, y):
                        for t in z.getbits():
                            if t is TOP:
                                self.support.add("TOP")
                            else:
                                for m in t:
                                    for vid in m:
                                        self.support.add(bv.var_name(vid))
                    return False

                def unknown_cmp(self, it, x, y):
                    self.unknown_compare(it, "Lt", x, y)
                    return 1
            h = Cap()
            it = Interp(F, False, h)
            it.call_body(body, [Ref(Cell(mkv("1", bvmode=True), "a")), Ref(Cell(mkv("2", bvmode=True), "b"))])
            rep.evaluations += 1
            if "TOP" not in h.support:
                missing = [(s_, i) for s_ in ("v1", "v2") for i in range(64) if (s_, i) not in h.support]
                if missing:
                    problems.append("the comparison never looks at bit %d of the score (%d score bits are ignored): two p-mers whose scores differ only there "
                                    "compare as equal, so a non-minimal p-mer can be reported as minimizer" % (missing[0][1], len(missing)))
        except (Undecided, Unsupported, Diverge):
            pass
        if problems:
            rep.violated(rule, "MinPos::" + nm, "MinPos::%s: %s" % (nm, problems[0]), site=F.site(body, body["line"]), witness={"kind": "row", "count": len(problems)})
        elif inc:
            rep.inconclusive(rule, "MinPos::" + nm, "MinPos::%s: %s" % (nm, inc[0]))
        else:
            rep.holds(rule, "MinPos::" + nm, "MinPos::%s orders by score, ties towards the larger position, Equal only on the diagonal; depends on all 64 bits of both scores (%d rows)" % (nm, rows))


# =========================================================================== C07.2–C07.5 abstract scan on small windows

class ScanOracles(LinOracles):
    def __init__(self, script, m, k, p, concrete_scores=None):
        LinOracles.__init__(self, script)
        self.m, self.k, self.p = m, k, p
        self.concrete_scores = concrete_scores
        if concrete_scores is None:
            for j in range(m - p + 1):
                self.assume({"s%d" % j: 1}, lo=0)

    def on_call(self, it, fn, args, dest_ty, term, caller):
        path = fn.get("path", "")
        name = path.split("::")[-1]
        tr = fn.get("trait", "")
        if is_print_call(fn):
            return Opaque(dest_ty, {"fmt"})
        if name == "k" and tr == "Kmer":
            return Int(64, False, val=self.p)
        if tr == "Mer" and name == "len":
            return Int(64, False, val=self.m)
        if tr == "Mer" and name == "get":
            i = args[1].val if isinstance(args[1], Int) and args[1].is_conc() else None
            if i is None or i >= self.m:
                raise Diverge("base read at %r of a sequence of length %d" % (args[1], self.m))
            return Int(8, False, bits=[TOP] * 8, tags=frozenset({"b:%d" % i}))
        if tr == "Vmer" and name == "get_kmer":
            i = args[1].val if isinstance(args[1], Int) and args[1].is_conc() else None
            if i is None or i + self.p > self.m:
                raise Diverge("p-mer read at %r of a sequence of length %d" % (args[1], self.m))
            return Opaque("P", {"pmer"}, {"at": i, "bases": tuple(range(i, i + self.p))})
        if tr == "Kmer" and name == "empty":
            return Opaque("P", {"pmer"}, {"at": None, "bases": None, "sentinel": True})
        if (tr == "Kmer" and name == "extend_right") or getattr(it.facts, "helper_summary", {}).get(fn.get("rpath") or path) == "extend_right" \
                or getattr(it.facts, "helper_summary", {}).get(path) == "extend_right":
            # (a crate helper that the helper lemmas identified, for every k-mer type, with Kmer::extend_right is that operation)
            k = recv(it, args[0])
            b = [t for t in tags_of(args[1]) if t.startswith("b:")]
            bases = k.info.get("bases")
            if bases is None or not b:
                raise Undecided("rolling an unknown p-mer")
            nb = tuple(bases[1:]) + (int(b[0][2:]),)
            at = nb[0] if nb == tuple(range(nb[0], nb[0] + self.p)) else None
            return Opaque("P", {"pmer"}, {"at": at, "bases": nb})
        if tr.endswith("PartialEq") and name in ("eq", "ne") and len(args) == 2:
            a, b = recv(it, args[0]), recv(it, args[1])
            if isinstance(a, Opaque) and isinstance(b, Opaque) and "pmer" in tags_of(a) and "pmer" in tags_of(b):
                ba, bb = a.info.get("bases"), b.info.get("bases")
                if ba is not None and ba == bb:
                    eq = True
                else:
                    ia, ib = a.info.get("at"), b.info.get("at")
                    sent = [x for x in (a, b) if x.info.get("sentinel")]
                    if len(sent) == 1 and (ia is not None or ib is not None):
                        # a window compared with the all-A p-mer (Kmer::empty()): whether the window is poly-A is an oracle; two poly-A
                        # windows are the same p-mer, so their scores are equal — nothing else is known about the score of poly-A
                        i_ = ia if ia is not None else ib
                        others = [int(k_[4:-len("==polyA")]) for k_, v_ in self.memo.items() if k_.startswith("pmer") and k_.endswith("==polyA") and v_ is True]
                        forced = any(self.decide("Eq", {"s%d" % min(i_, j): 1, "s%d" % max(i_, j): -1}, 0) is False for j in others if j != i_)
                        eq = False if forced else self.choose("pmer%d==polyA" % i_, (False, True))
                        if eq:
                            for j in others:
                                if j != i_:
                                    self.refine("Eq", {"s%d" % min(i_, j): 1, "s%d" % max(i_, j): -1}, 0, True)
                        return mkbool(eq if name == "eq" else not eq)
                    if ia is None or ib is None:
                        raise Undecided("equality of p-mers that are not windows of the sequence")
                    if self.concrete_scores is not None:
                        eq = self.concrete_scores(ia) == self.concrete_scores(ib)
                        return mkbool(eq if name == "eq" else not eq)
                    lo, hi = min(ia, ib), max(ia, ib)
                    d = {"s%d" % lo: 1, "s%d" % hi: -1}
                    # equal p-mers have equal scores: if the scores are already known to differ the p-mers differ
                    if self.decide("Eq", d, 0) is False:
                        eq = False
                    else:
                        eq = self.choose("pmer%d==pmer%d" % (lo, hi), (False, True))
                        if eq:
                            self.refine("Eq", d, 0, True)
                return mkbool(eq if name == "eq" else not eq)
        if name in ("call", "call_mut", "call_once") and isinstance(recv(it, args[0]), Opaque) and "score-fn" in tags_of(recv(it, args[0])):
            pm = recv(it, args[1].fields[0]) if isinstance(args[1], Tup) else None
            at = pm.info.get("at") if isinstance(pm, Opaque) else None
            if at is None:
                self.observe("scored-non-window", pm.info.get("bases") if isinstance(pm, Opaque) else None)
                return atom_int(64, "s?")
            if self.concrete_scores is not None:
                return Int(64, False, val=self.concrete_scores(at))
            return atom_int(64, "s%d" % at)
        return NotImplemented

    concrete_scores = None      # long-sequence rows: a fixed score pattern (position -> score); equal scores = equal p-mers


def scan_tables(F, rep, rule="C07.2"):
    cands = [b for b in F.fns.values() if b["path"].startswith("msp::Scanner") and b["path"].endswith("::scan")]
    if len(cands) != 1:
        rep.violated(rule, "scan", "anchor-missing: msp::Scanner::scan", witness={"kind": "anchor-missing"})
        return
    body = cands[0]
    adt = "msp::Scanner"
    configs = [(4, 4, 2), (5, 4, 2), (6, 4, 2), (5, 3, 3), (6, 3, 3), (4, 3, 1), (5, 3, 1), (5, 2, 2)] if rep.tier != "thorough" else \
        [(4, 4, 2), (5, 4, 2), (6, 4, 2), (7, 4, 2), (5, 3, 3), (6, 3, 3), (7, 3, 3), (4, 3, 1), (5, 3, 1), (6, 3, 1), (5, 2, 2), (6, 2, 2), (7, 5, 2)]
    problems = []
    inc = []
    rows = 0
    for (m, k, p) in configs:
        def mk(script, m=m, k=k, p=p):
            return ScanOracles(script, m, k, p)

        def run(h, m=m, k=k, p=p):
            it = Interp(F, False, h)
            mp0 = struct_of(F, MINPOS, {"val": Int(64, False, val=0), "pos": Int(64, False, val=0), "kmer": Opaque("P", {"pmer"}, {"at": None})})
            me = struct_of(F, adt, {"seq": Ref(Cell(Opaque("V", {"seq"}), "seq")), "score": Opaque("F", {"score-fn"}), "k": Int(64, False, val=k), "_mp": mp0})
            return it.call_body(body, [Ref(Cell(me, "self"))])
        try:
            leaves = explore(mk, run, max_runs=6000)
        except Unsupported as e:
            inc.append("(m=%d,k=%d,p=%d): %s" % (m, k, p, e))
            continue
        for a, out, h in leaves:
            rows += 1
            rep.evaluations += 1
            cfg = "(len=%d, k=%d, p=%d)" % (m, k, p)
            if isinstance(out, tuple) and out and out[0] == "inconclusive":
                inc.append("%s: %s" % (cfg, out[1]))
                continue
            if isinstance(out, tuple) and out and out[0] == "diverge":
                problems.append("%s: scan diverges: %s" % (cfg, out[1]))
                continue
            preds = [n for n, _ in h.obs.get("cmp", [])]
            if any("trunc" in n for n in preds):
                problems.append("%s: scores are truncated before they are compared (%s): p-mers whose scores agree in the kept bits tie artificially" % (cfg, [n for n in preds if "trunc" in n][0]))
                continue
            if any("(" in n.split(" ")[0] and "trunc" not in n for n in preds):
                inc.append("%s: a comparison is made on a derived quantity (%s) whose relation to the scores this analysis does not model" % (cfg, [n for n in preds if "(" in n][0]))
                continue
            if h.obs.get("scored-non-window"):
                problems.append("%s: a p-mer made of non-consecutive bases %s is scored (rolling reads the wrong base)" % (cfg, h.obs["scored-non-window"][0]))
                continue
            atoms = ["s%d" % j for j in range(m - p + 1)]
            if not isinstance(out, VecV):
                inc.append("%s: result %r" % (cfg, out))
                continue
            ivs = []
            fn_ = [f["name"] for f in F.adts["msp::MspIntervalP"]["variants"][0]["fields"]]
            bad = False
            for e in out.elems:
                d = {n: e.fields[i] for i, n in enumerate(fn_)}
                try:
                    ivs.append((d["start"].val, d["len"].val, d["minimizer_pos"].val, info_of(d["minimizer"]).get("at")))
                except AttributeError:
                    bad = True
            if bad or any(x is None for iv in ivs for x in iv[:3]):
                inc.append("%s: interval fields not concrete" % cfg)
                continue
            # the intervals are fixed on this path; the scores are any values consistent with the comparisons the code made (scores it never
            # looked at are free): look for consistent scores under which the intervals break a clause of the statement
            bad_env = h.find_model(atoms, lambda e: check_partition(ivs, [e[a_] for a_ in atoms], m, k, p) is not None, bound=len(atoms))
            if bad_env is not None:
                sc = [bad_env[a_] for a_ in atoms]
                problems.append("%s with p-mer scores %s: intervals (start,len,minimizer_pos) %s — %s" % (cfg, sc, [iv[:3] for iv in ivs], check_partition(ivs, sc, m, k, p)))
            elif h.find_model(atoms, lambda e: True, bound=len(atoms)) is None:
                inc.append("%s: no model for the explored score ordering" % cfg)
    # ---- long sequences: one block past every size constant the scanner mentions (block sizes, batch limits), with fixed score patterns —
    # all p-mers tied (a homopolymer), and a short period with ties; the clauses of the statement are evaluated on the intervals returned
    from .dt_graph import size_thresholds
    if not problems:
        for c in size_thresholds(F, body, lo=255)[-1:]:
            for pname, pat in (("all scores equal", lambda j: 0), ("scores (7j mod 5)", lambda j: (7 * j) % 5)):
                m, k, p = c + 9, 4, 2
                h = ScanOracles((), m, k, p, concrete_scores=pat)
                it = Interp(F, False, h)
                it.max_steps = 400 * m + 1000000
                mp0 = struct_of(F, MINPOS, {"val": Int(64, False, val=0), "pos": Int(64, False, val=0), "kmer": Opaque("P", {"pmer"}, {"at": None})})
                me = struct_of(F, adt, {"seq": Ref(Cell(Opaque("V", {"seq"}), "seq")), "score": Opaque("F", {"score-fn"}), "k": Int(64, False, val=k), "_mp": mp0})
                rep.evaluations += 1
                try:
                    out = it.call_body(body, [Ref(Cell(me, "self"))])
                except (Undecided, Unsupported) as e:
                    inc.append("(len=%d, k=%d, p=%d, %s): %s" % (m, k, p, pname, e))
                    continue
                except Diverge as e:
                    problems.append("(len=%d, k=%d, p=%d, %s): scan diverges: %s" % (m, k, p, pname, e))
                    continue
                fn_ = [f["name"] for f in F.adts["msp::MspIntervalP"]["variants"][0]["fields"]]
                try:
                    ivs = []
                    for e in out.elems:
                        d = {n: e.fields[i] for i, n in enumerate(fn_)}
                        ivs.append((d["start"].val, d["len"].val, d["minimizer_pos"].val, info_of(d["minimizer"]).get("at")))
                except AttributeError:
                    inc.append("(len=%d, %s): interval fields not concrete" % (m, pname))
                    continue
                sc = [pat(j) for j in range(m - p + 1)]
                msg = check_partition(ivs, sc, m, k, p)
                if msg is not None:
                    problems.append("(len=%d, k=%d, p=%d) with %s — one block past the size constant %d the scanner mentions: %s" % (m, k, p, pname, c, msg))
                rows += 1
    # ---- wide windows: a window of more p-mers than every small size constant the scanner mentions (ring sizes, slot counts; none on the
    # pinned tree), with fixed score patterns — ascending (the minimizer is always the oldest p-mer: a rescan at every step), descending,
    # all tied, and a short period with ties
    if not problems:
        for c in [c_ for c_ in size_thresholds(F, body, lo=7) if c_ <= 4096][-2:]:
            p = 2
            k = c + p + 1
            m = k + c + 7
            for pname, pat in (("ascending scores", lambda j: j), ("descending scores", lambda j, m=m: m - j), ("all scores equal", lambda j: 0),
                               ("scores (7j mod 5)", lambda j: (7 * j) % 5)):
                h = ScanOracles((), m, k, p, concrete_scores=pat)
                it = Interp(F, False, h)
                it.max_steps = 60 * m * (k + 8) + 1000000
                mp0 = struct_of(F, MINPOS, {"val": Int(64, False, val=0), "pos": Int(64, False, val=0), "kmer": Opaque("P", {"pmer"}, {"at": None})})
                me = struct_of(F, adt, {"seq": Ref(Cell(Opaque("V", {"seq"}), "seq")), "score": Opaque("F", {"score-fn"}), "k": Int(64, False, val=k), "_mp": mp0})
                rep.evaluations += 1
                try:
                    out = it.call_body(body, [Ref(Cell(me, "self"))])
                except (Undecided, Unsupported) as e:
                    inc.append("(len=%d, k=%d, p=%d, %s): %s" % (m, k, p, pname, e))
                    continue
                except Diverge as e:
                    problems.append("(len=%d, k=%d, p=%d, %s): scan diverges: %s" % (m, k, p, pname, e))
                    continue
                fn_ = [f["name"] for f in F.adts["msp::MspIntervalP"]["variants"][0]["fields"]]
                try:
                    ivs = []
                    for e in out.elems:
                        d = {n: e.fields[i] for i, n in enumerate(fn_)}
                        ivs.append((d["start"].val, d["len"].val, d["minimizer_pos"].val, info_of(d["minimizer"]).get("at")))
                except AttributeError:
                    inc.append("(len=%d, %s): interval fields not concrete" % (m, pname))
                    continue
                sc = [pat(j) for j in range(m - p + 1)]
                msg = check_partition(ivs, sc, m, k, p)
                if msg is not None:
                    problems.append("(len=%d, k=%d, p=%d) with %s — a window of %d p-mers, more than the size constant %d the scanner mentions: %s" % (
                        m, k, p, pname, k - p + 1, c, msg))
                rows += 1
    if problems:
        rep.violated(rule, "scan", "Scanner::scan: %s" % problems[0], site=F.site(body, body["line"]), witness={"kind": "row", "count": len(problems)})
    elif inc:
        rep.inconclusive(rule, "scan", "Scanner::scan: %s" % inc[0])
    else:
        rep.holds(rule, "scan", "Scanner::scan on every ordering (with ties) of the p-mer scores for %d small windows (len, k, p): intervals in start order with exactly "
                  "k-1 overlap, lengths in [k, 2k-p], the minimizer is the p-mer at the reported position, lies in every k-mer of its interval, is minimal "
                  "there, and no interval ends while the next k-mer keeps its minimizer without a strictly better p-mer (%d score orderings)" % (len(configs), rows),
                  sample={"orderings": rows, "configs": configs})


def check_partition(ivs, sc, m, k, p):
    """the clauses of C07 on concrete intervals and scores; returns a message or None"""
    if not ivs:
        return "no interval"
    if ivs[0][0] != 0:
        return "the first interval does not start at 0"
    for i, (s, l, mp, at) in enumerate(ivs):
        if not (k <= l <= 2 * k - p):
            return "interval %d has length %d outside [k, 2k-p] = [%d, %d]" % (i, l, k, 2 * k - p)
        if at != mp:
            return "interval %d reports the p-mer at %s as minimizer but minimizer_pos = %d" % (i, at, mp)
        for ks in range(s, s + l - k + 1):
            if not (ks <= mp <= ks + k - p):
                return "the minimizer of interval %d (position %d) is not inside the k-mer starting at %d" % (i, mp, ks)
        best = min(sc[j] for j in range(s, s + l - p + 1))
        if sc[mp] != best:
            return "the minimizer of interval %d has score %d but the p-mer at %d in the interval scores %d" % (
                i, sc[mp], min(range(s, s + l - p + 1), key=lambda j: sc[j]), best)
        if i + 1 < len(ivs):
            s2 = ivs[i + 1][0]
            if s2 <= s:
                return "intervals are not in start order"
            if s + l - s2 != k - 1:
                return "intervals %d and %d overlap by %d bases instead of k-1 = %d (a k-mer start is covered %s)" % (
                    i, i + 1, s + l - s2, k - 1, "twice" if s + l - s2 > k - 1 else "by no interval")
            # maximality: the next k-mer starts at s2; it still contains mp and brings the new p-mer at s2+k-p
            nk = s2
            if nk <= mp <= nk + k - p and sc[nk + k - p] >= sc[mp] and all(sc[j] >= sc[mp] for j in range(nk, nk + k - p + 1)):
                return "interval %d ends at k-mer %d although the next k-mer still contains its minimizer (position %d, score %d) and brings no strictly better p-mer" % (
                    i, nk - 1, mp, sc[mp])
        else:
            if s + l != m:
                return "the last interval ends at %d, the sequence has %d bases" % (s + l, m)
    return None


# =========================================================================== C07.6 narrowing casts are guarded

def cast_guards(F, rep, rule="C07.6"):
    """every narrowing `as` cast in Scanner::scan must be unreachable with a value that does not fit: the assertions that
    dominate it are evaluated (as formulas over k, p and the sequence length) on a grid of boundary parameter values; a
    parameter triple that passes every dominating assertion and still allows an interval length 2k-p (for u16 / u8 casts) or a
    position < len (for u32 casts) beyond the target type is a witness of silent truncation."""
    from . import structural
    cands = [b for b in F.fns.values() if b["path"].startswith("msp::Scanner") and b["path"].endswith("::scan")]
    if len(cands) != 1:
        return
    body = cands[0]
    g = C.CFG(body)
    d = C.Defs(body)
    fields = structural.field_names(F, "msp::Scanner") or []
    M64 = (1 << 64) - 1

    class Unknown(Exception):
        pass

    def ev(e, env):
        if not isinstance(e, tuple):
            raise Unknown(repr(e))
        if e[0] == "const" and isinstance(e[1], int):
            return e[1]
        if e[0] == "call":
            nm = e[1]
            if nm.endswith("Mer::len") or nm.endswith("::len"):
                return env["len"]
            if nm.endswith("Kmer::k"):
                return env["p"]
            raise Unknown(nm)
        if e[0] == "field" and isinstance(e[2], int) and e[2] < len(fields) and fields[e[2]] == "k":
            return env["k"]
        if e[0] in ("deref", "ref", "copy", "move", "use") and len(e) >= 2:
            return ev(e[1], env)
        if e[0] == "cast" and len(e) >= 2:
            return ev(e[1], env)
        if e[0] == "un" and e[1] == "Not":
            v = ev(e[2], env)
            return (not v) if isinstance(v, bool) else (~v) & M64
        if e[0] == "bin":
            op = e[1]
            x, y = ev(e[2], env), ev(e[3], env)
            if op in ("Add", "AddUnchecked", "AddWithOverflow"):
                return (x + y) & M64
            if op in ("Sub", "SubUnchecked", "SubWithOverflow"):
                return (x - y) & M64
            if op in ("Mul", "MulUnchecked", "MulWithOverflow"):
                return (x * y) & M64
            if op in ("Shl", "ShlUnchecked"):
                return (x << y) & M64 if y < 64 else 0
            if op in ("Shr", "ShrUnchecked"):
                return x >> y if y < 64 else 0
            if op == "Div":
                if y == 0:
                    raise Unknown("div0")
                return x // y
            if op == "BitAnd":
                return (x and y) if isinstance(x, bool) else x & y
            if op == "BitOr":
                return (x or y) if isinstance(x, bool) else x | y
            if op in ("Lt", "Le", "Gt", "Ge", "Eq", "Ne"):
                return {"Lt": x < y, "Le": x <= y, "Gt": x > y, "Ge": x >= y, "Eq": x == y, "Ne": x != y}[op]
            raise Unknown(op)
        raise Unknown(e[0])

    # guards: a branch one of whose edges panics immediately
    guards = []   # (block, expr, panics_when_value)
    for bi in g.reach0:
        t = body["blocks"][bi]["t"]
        if t.get("k") != "switch":
            continue
        edges = [(tv, tb) for tv, tb in t["targets"]] + [(None, t["otherwise"])]
        for tv, tb in edges:
            tt = body["blocks"][tb]["t"]
            fr = tt["f"].get("const", {}).get("fn") if tt.get("k") == "call" and "const" in tt["f"] else None
            if fr and (fr.get("path", "").startswith("core::panicking") or "panic" in fr.get("path", "")):
                others = [v for v, b2 in edges if b2 != tb]
                guards.append((bi, d.expr_operand(t["o"]), tv, others))

    def passes(guard, env):
        """True / False / None (not evaluable)"""
        bi, e, tv, others = guard
        try:
            v = ev(e, env)
        except Unknown:
            return None
        v = int(v)
        if tv is None:       # the panic is the `otherwise` edge: passing needs one of the listed values
            return v in [o for o in others if o is not None]
        return v != tv

    ks = [1, 2, 16, 31, 32, 255, 256, 32766, 32767, 32768, 32769, 32770, 32772, 33000, 40000, 65535, 65536, 65537, 70000, 1 << 20, (1 << 31) + 7, 1 << 32]
    ps = [1, 2, 4, 5, 8, 16, 31, 32]
    n = 0
    for bi in sorted(g.reach0):
        for st in body["blocks"][bi]["s"]:
            if st["k"] != "assign" or st["rv"]["k"] != "cast" or st["rv"]["ck"] != "int2int":
                continue
            tgt = F.ty(st["rv"]["ty"])
            src_e = d.expr_operand(st["rv"]["o"])
            if tgt.get("k") != "uint" or tgt["w"] >= 64:
                continue
            n += 1
            w = tgt["w"]
            limit = 1 << w
            dom = [gd for gd in guards if g.dominates(gd[0], bi)]
            key = "scan/cast-u%d#%d" % (w, n)
            witness = None
            unknown = False
            for k in ks:
                for p in ps:
                    if p > k:
                        continue
                    lens = sorted({2 * k - p, 2 * k, limit - 1, limit, limit + 5, 1 << 33} | ({(1 << 32) - 1} if w < 32 else set()))
                    for L in lens:
                        if L < k:
                            continue
                        env = {"k": k, "p": p, "len": L}
                        # what the cast operand can reach: an interval length (<= min(2k-p, len)) for the small targets, a position (< len) for u32
                        reach = min(2 * k - p, L) if w < 32 else L - 1
                        if reach < limit:
                            continue
                        res = [passes(gd, env) for gd in dom]
                        if any(r is False for r in res):
                            continue
                        if any(r is None for r in res):
                            unknown = True
                            continue
                        witness = env
                        break
                    if witness:
                        break
                if witness:
                    break
            if witness:
                rep.violated(rule, key, "Scanner::scan narrows an interval quantity to u%d with `as` (line %s); the assertions that dominate the cast all pass for "
                             "k=%d, p=%d, sequence length %d, where %s — the value wraps silently" % (
                                 w, st.get("ln"), witness["k"], witness["p"], witness["len"],
                                 ("an interval can be 2k-p = %d >= 2^%d bases long" % (2 * witness["k"] - witness["p"], w)) if w < 32 else ("positions reach %d >= 2^%d" % (witness["len"] - 1, w))),
                             site=F.site(body, st.get("ln")), witness={"kind": "cast-guard", "bits": w, "expr": C.show(src_e)[:300], "params": witness,
                                                                    "guards": [C.show(gd[1])[:120] for gd in dom]})
            elif unknown:
                rep.inconclusive(rule, key, "narrowing cast #%d to u%d: a dominating assertion is not a formula over k, p and the sequence length: %s" % (
                    n, w, [C.show(gd[1])[:100] for gd in dom]))
            else:
                rep.holds(rule, key, "narrowing cast #%d to u%d: no parameter triple (k, p, len) of the boundary grid passes the %d dominating assertion(s) %s and "
                          "lets the value reach 2^%d" % (n, w, len(dom), [C.show(gd[1])[:60] for gd in dom], w))
    if n == 0:
        rep.holds(rule, "scan/no-narrowing-casts", "Scanner::scan contains no narrowing `as` cast", nontrivial=False)


def capacity_guard(F, rep, rule="C08.2"):
    """msp_sequence packs pieces of up to 2k-p bases into the caller's container type: the assertion(s) on V::max_len() that dominate
    the packing must refuse every (k, p, max_len) with max_len < 2k-p.  The guard formulas are evaluated on a boundary grid."""
    body = F.fns.get("msp::msp_sequence")
    if body is None:
        return
    g = C.CFG(body)
    d = C.Defs(body)
    M64 = (1 << 64) - 1

    class Unknown(Exception):
        pass

    def ev(e, env):
        if not isinstance(e, tuple):
            raise Unknown(repr(e))
        if e[0] == "const" and isinstance(e[1], int):
            return e[1]
        if e[0] == "param" and len(e) >= 3 and e[2] == "k":
            return env["k"]
        if e[0] == "call":
            if e[1].endswith("max_len"):
                return env["max_len"]
            if e[1].endswith("Kmer::k"):
                return env["p"]
            raise Unknown(e[1])
        if e[0] in ("deref", "ref", "copy", "move", "use", "cast") and len(e) >= 2:
            return ev(e[1], env)
        if e[0] == "bin":
            op = e[1]
            x, y = ev(e[2], env), ev(e[3], env)
            if op.startswith("Add"):
                return (x + y) & M64
            if op.startswith("Sub"):
                return (x - y) & M64
            if op.startswith("Mul"):
                return (x * y) & M64
            if op.startswith("Shl"):
                return (x << y) & M64 if y < 64 else 0
            if op.startswith("Shr"):
                return x >> y if y < 64 else 0
            if op == "Div" and y:
                return x // y
            if op in ("Lt", "Le", "Gt", "Ge", "Eq", "Ne"):
                return {"Lt": x < y, "Le": x <= y, "Gt": x > y, "Ge": x >= y, "Eq": x == y, "Ne": x != y}[op]
            raise Unknown(op)
        raise Unknown(e[0])
    guards = []
    for bi in g.reach0:
        t = body["blocks"][bi]["t"]
        if t.get("k") != "switch":
            continue
        edges = [(tv, tb) for tv, tb in t["targets"]] + [(None, t["otherwise"])]
        for tv, tb in edges:
            tt = body["blocks"][tb]["t"]
            fr = tt["f"].get("const", {}).get("fn") if tt.get("k") == "call" and "const" in tt["f"] else None
            if fr and (fr.get("path", "").startswith("core::panicking") or "panic" in fr.get("path", "")):
                e = d.expr_operand(t["o"])
                if "max_len" in C.show(e):
                    guards.append((e, tv, [v for v, b2 in edges if b2 != tb]))
    key = "piece-capacity"
    if not guards:
        rep.inconclusive(rule, key, "msp_sequence has no assertion on V::max_len() in its own body: that pieces of 2k-p bases fit the container is not decided here")
        return
    rep.evaluations += 1
    for k in (17, 33, 31, 32, 16, 5, 3, 2, 1, 100, 1000):
        for p in (5, 8, 3, 2, 1, 16, 31, 32):
            if p > k:
                continue
            need = 2 * k - p
            for ml in (need - 2, need - 1):
                if ml < 0:
                    continue
                env = {"k": k, "p": p, "max_len": ml}
                ok = True
                unknown = False
                for e, tv, others in guards:
                    try:
                        v = int(ev(e, env))
                    except Unknown:
                        unknown = True
                        continue
                    passes = (v in [o for o in others if o is not None]) if tv is None else (v != tv)
                    if not passes:
                        ok = False
                        break
                if ok and not unknown:
                    rep.violated(rule, key, "msp_sequence accepts k=%d, p=%d with a container of capacity max_len=%d: the assertion(s) %s pass, but a piece can be "
                                 "2k-p = %d bases long — it does not fit (fixed-size containers are silently corrupted)" % (
                                     k, p, ml, [C.show(x[0])[:80] for x in guards], need), site=F.site(body, body["line"]),
                                 witness={"kind": "guard", "params": env})
                    return
                if ok and unknown:
                    rep.inconclusive(rule, key, "an assertion on max_len is not a formula over k, p and max_len: %s" % [C.show(x[0])[:100] for x in guards])
                    return
    rep.holds(rule, key, "the capacity assertion(s) %s refuse every (k, p, max_len) of the boundary grid with max_len < 2k-p" % [C.show(x[0])[:80] for x in guards])


# =========================================================================== C08 shard assignment

def rc_rank(r, P):
    """rank of the reverse complement of the P-letter k-mer of rank r (first letter most significant)"""
    out = 0
    for _ in range(P):
        out = out * 4 + (3 - (r & 3))
        r >>= 2
    return out


class ScoreOracles(LinOracles):
    def on_call(self, it, fn, args, dest_ty, term, caller):
        path = fn.get("path", "")
        name = path.split("::")[-1]
        tr = fn.get("trait", "")
        if tr == "Kmer" and name == "to_u64":
            k = recv(it, args[0])
            if "rank" in info_of(k):
                return Int(64, False, val=info_of(k)["rank"])
            return atom_int(64, "rank(%s)" % info_of(k).get("p"))
        if tr == "Mer" and name == "rc":
            k = recv(it, args[0])
            if "rank" in info_of(k):
                r = rc_rank(info_of(k)["rank"], self.P)
                return Opaque("P", {"pmer"}, {"p": "#%d" % r, "rank": r})
            return Opaque("P", {"pmer"}, {"p": "rc(%s)" % info_of(k).get("p")})
        if tr == "Kmer" and name == "from_u64" and getattr(self, "ranked", False):
            # ranked mode: the p-mer type is scripted as the P-letter k-mers with their ranks (tables over all p-mers can be interpreted)
            r = args[0]
            if isinstance(r, Int) and r.is_conc() and 0 <= r.val < 4 ** self.P:
                return Opaque("P", {"pmer"}, {"p": "#%d" % r.val, "rank": r.val})
            raise Undecided("from_u64 of %r" % (r,))
        return NotImplemented

    def opaque_index(self, it, v, idx, base):
        if "perm" in tags_of(v) and isinstance(idx, Int) and idx.is_conc() and getattr(self, "ranked", False):
            nm = "perm[#%d]" % idx.val
            return Ref(Cell(atom_int(64, nm), nm))
        if "perm" in tags_of(v):
            a = affs(idx)
            nm = "perm[%s]" % (a[5:-1] if a.startswith("rank(") and a.endswith(")") else "?" + a)
            return Ref(Cell(atom_int(64, nm), nm))
        return None


class MspHostOracles(ScoreOracles):
    """runs msp_sequence / simple_scan with the scanner scripted; captures the score callable handed to Scanner::new"""

    def __init__(self, script=(), N=10):
        ScoreOracles.__init__(self, script)
        self.score = None
        self.ev = []
        self.K, self.P, self.N = 4, 2, N

    def on_call(self, it, fn, args, dest_ty, term, caller):
        path = fn.get("path", "")
        name = path.split("::")[-1]
        tr = fn.get("trait", "")
        if is_print_call(fn):
            return Opaque(dest_ty, {"fmt"})
        if tr == "Kmer" and name == "k":
            return Int(64, False, val=self.P)
        if tr == "Vmer" and name == "max_len":
            return Int(64, False, val=1 << 40)
        if tr == "Mer" and name == "len":
            return Int(64, False, val=self.N)
        if path.startswith("msp::Scanner") and name == "new":
            self.score = args[1]
            self.ev.append(("scanner-new", "seq" in tags_of(recv(it, args[0])) or any("seq" in tags_of(f) for f in getattr(recv(it, args[0]), "fields", ())),
                            args[2].val if isinstance(args[2], Int) and args[2].is_conc() else None))
            return Opaque("Scanner", {"scanner"})
        if path.startswith("msp::Scanner") and name == "scan":
            self.ev.append(("scan",))
            ivs = []
            for i in range(2):
                ivs.append(struct_of(it.facts, "msp::MspIntervalP", {"minimizer": Opaque("P", {"pmer"}, {"p": "m%d" % i}), "start": atom_int(32, "s%d" % i),
                                                                    "len": atom_int(16, "l%d" % i), "minimizer_pos": atom_int(32, "mp%d" % i)}))
            return VecV(ivs)
        if name == "from_slice" and tr == "Vmer":
            sl = args[0]
            ok = isinstance(sl, Ref) and "seq" in tags_of(it.read(sl.cell, sl.path))
            self.ev.append(("piece", ok, affs(sl.off) if isinstance(sl, Ref) and isinstance(sl.off, Int) else repr(getattr(sl, "off", None)),
                            affs(sl.len) if isinstance(sl, Ref) and isinstance(sl.len, Int) else repr(getattr(sl, "len", None))))
            return Opaque("V", {"piece:%d" % sum(1 for e in self.ev if e[0] == "piece")})
        if path == "Exts::from_slice_bounds":
            r0 = args[0]
            whole = isinstance(r0, Ref) and (r0.len is None or (isinstance(r0.len, int) and r0.len == self.N) or (isinstance(r0.len, Int) and r0.len.is_conc() and r0.len.val == self.N)) \
                and (r0.off in (0, None) or (isinstance(r0.off, Int) and r0.off.is_conc() and r0.off.val == 0))
            if not whole:
                self.ev.append(("exts-on-part", affs(r0.off) if isinstance(r0.off, Int) else repr(r0.off), affs(r0.len) if isinstance(r0.len, Int) else repr(r0.len)))
            self.ev.append(("exts", "seq" in tags_of(recv(it, args[0])), affs(args[1]), affs(args[2])))
            return Adt(EXTS, 0, [Int(8, False, bits=[TOP] * 8)], tags=frozenset({"pexts:%d" % sum(1 for e in self.ev if e[0] == "exts")}))
        if name == "bucket" and "MspIntervalP" in path:
            iv = recv(it, args[0])
            m = [f for f in iv.fields if isinstance(f, Opaque) and "pmer" in f.tags]
            return Int(64, False, bits=[TOP] * 64, tags=frozenset({"bucket-of:%s" % (m[0].info.get("p") if m else "?")}))
        return ScoreOracles.on_call(self, it, fn, args, dest_ty, term, caller)

    def opaque_index(self, it, v, idx, base):
        if "seq" in tags_of(v) and isinstance(idx, Adt) and idx.name.endswith("ops::Range"):
            s_, e_ = idx.fields
            return Ref(base.cell if base is not None else Cell(v), base.path if base is not None else (), s_, bv.binop("Sub", e_, s_))
        return ScoreOracles.opaque_index(self, it, v, idx, base)

    def opaque_len(self, it, v):
        if "seq" in tags_of(v):
            return Int(64, False, val=self.N)
        return None


def msp_host_tables(F, rep, rule_score="C08.1", rule_piece="C08.2"):
    """msp_sequence and simple_scan: the score handed to the scanner, and (msp_sequence) the pieces built from its intervals"""
    from .models import call_callable
    for host, nm in (("msp::msp_sequence", "msp_sequence"), ("msp::simple_scan", "simple_scan")):
        body = F.fns.get(host)
        if body is None:
            rep.violated(rule_score, "score/" + nm, "anchor-missing: %s" % host, witness={"kind": "anchor-missing"})
            continue
        problems = []
        inc = []
        piece_problems = []
        rows = 0
        for rc in (False, True):
            def mk(script):
                return MspHostOracles(script)

            def run(h, rc=rc):
                it = Interp(F, False, h)
                h.it = it
                seq = Ref(Cell(Opaque("[u8]", {"seq"}), "seq"))
                perm = Ref(Cell(Opaque("[usize]", {"perm"}), "perm"))
                if nm == "msp_sequence":
                    args = [Int(64, False, val=h.K), seq, Adt("std::option::Option", 1, [perm]), mkbool(rc)]
                else:
                    args = [Int(64, False, val=h.K), Ref(Cell(Opaque("V", {"seq"}), "seqv")), perm, mkbool(rc)]
                out = it.call_body(body, args)
                if h.score is None:
                    raise Unsupported("no score function was handed to Scanner::new")
                sc = call_callable(it, h.score, [Ref(Cell(Opaque("P", {"pmer"}, {"p": "p"}), "pi"))], {"ln": None}, body, 0)
                return (out, sc)
            for a, out, h in explore(mk, run):
                rows += 1
                rep.evaluations += 1
                if isinstance(out, tuple) and out and out[0] == "inconclusive":
                    inc.append(out[1])
                    continue
                if isinstance(out, tuple) and out and out[0] == "diverge":
                    problems.append("diverges: %s" % out[1])
                    continue
                res, sc = out
                got = affs(sc)
                if not rc:
                    if got != "perm[p]":
                        problems.append("rc=false: the score of p is %s; required perm[rank(p)]" % got)
                else:
                    le = h.truth("Le", {"perm[p]": 1, "perm[rc(p)]": -1}, 0)
                    if le is None:
                        problems.append("rc=true: the score %s is not the minimum of perm[rank(p)] and perm[rank(rc(p))] (compared: %s) — a k-mer and its reverse "
                                        "complement can be sent to different shards" % (got, [n for n, _ in h.obs.get("cmp", [])]))
                    else:
                        want = "perm[p]" if le else "perm[rc(p)]"
                        eq = h.truth("Eq", {"perm[p]": 1, "perm[rc(p)]": -1}, 0)
                        if got != want and not (eq and got in ("perm[p]", "perm[rc(p)]")):
                            problems.append("rc=true: the score is %s, required %s" % (got, want))
                if nm == "msp_sequence":
                    pieces = [e for e in h.ev if e[0] == "piece"]
                    exts = [e for e in h.ev if e[0] == "exts"]
                    want_p = [("piece", True, "s%d" % i, "l%d" % i) for i in range(2)]
                    want_e = [("exts", True, "s%d" % i, "l%d" % i) for i in range(2)]
                    if pieces != want_p:
                        piece_problems.append("pieces are built from (read?, start, len) = %s; required the read's bases [start_i, start_i+len_i) of each interval: %s" % (pieces, want_p))
                    if exts != want_e:
                        piece_problems.append("boundary extensions are computed for %s; required the same read and the same (start, len) as each piece: %s" % (exts, want_e))
                    if isinstance(res, VecV) and len(res.elems) == 2:
                        for i, t in enumerate(res.elems):
                            ok = isinstance(t, Tup) and len(t.fields) == 3 and "bucket-of:m%d" % i in tags_of(t.fields[0]) and "pexts:%d" % (i + 1) in tags_of(t.fields[1]) \
                                and "piece:%d" % (i + 1) in tags_of(t.fields[2])
                            if not ok:
                                piece_problems.append("emitted triple %d is not (bucket of interval %d's minimizer, that piece's extensions, that piece): %r" % (i, i, t))
                    else:
                        inc.append("result of msp_sequence is %r" % (res,))
        # ---- a host that pre-computes its scores in a table over all p-mers cannot be followed with an unknown p-mer: the p-mer type is then
        # scripted as the 2-letter k-mers (16 ranks), the permutation stays symbolic (every outcome of the comparisons the host makes between
        # its entries is explored), and the score of EVERY p-mer is decided
        if inc and not problems:
            inc2 = []
            rows2 = 0
            for rc in (False, True):
                def mk3(script):
                    h = MspHostOracles(script)
                    h.ranked = True
                    return h

                def run3(h, rc=rc):
                    it = Interp(F, False, h)
                    h.it = it
                    seq = Ref(Cell(Opaque("[u8]", {"seq"}), "seq"))
                    perm = Ref(Cell(Opaque("[usize]", {"perm"}), "perm"))
                    if nm == "msp_sequence":
                        args = [Int(64, False, val=h.K), seq, Adt("std::option::Option", 1, [perm]), mkbool(rc)]
                    else:
                        args = [Int(64, False, val=h.K), Ref(Cell(Opaque("V", {"seq"}), "seqv")), perm, mkbool(rc)]
                    it.call_body(body, args)
                    if h.score is None:
                        raise Unsupported("no score function was handed to Scanner::new")
                    return [call_callable(it, h.score, [Ref(Cell(Opaque("P", {"pmer"}, {"p": "#%d" % r, "rank": r}), "pi"))], {"ln": None}, body, 0)
                            for r in range(4 ** h.P)]
                for a, out, h in explore(mk3, run3):
                    rows2 += 1
                    rep.evaluations += 1
                    if isinstance(out, tuple) and out and out[0] == "inconclusive":
                        inc2.append(out[1])
                        break
                    if isinstance(out, tuple) and out and out[0] == "diverge":
                        problems.append("diverges: %s" % out[1])
                        continue
                    for r, sc in enumerate(out):
                        got = affs(sc)
                        r2 = rc_rank(r, h.P) if rc else r
                        cands = {"perm[#%d]" % r: r2, "perm[#%d]" % r2: r}
                        if got not in cands:
                            problems.append("rc=%s: the score of the p-mer of rank %d (2-letter p-mers; its reverse complement has rank %d) is %s; required %s" % (
                                str(rc).lower(), r, rc_rank(r, h.P), got, "min(perm[%d], perm[%d])" % (r, r2) if rc else "perm[%d]" % r))
                            break
                        other = cands[got]
                        if r2 != r and h.truth("Le", {got: 1, "perm[#%d]" % other: -1}, 0) is not True \
                                and h.find_model([got, "perm[#%d]" % other], lambda e, g=got, o="perm[#%d]" % other: e[g] > e[o]) is not None:
                            problems.append("rc=true: the score of the p-mer of rank %d is %s although perm[%d] may be smaller on this path: not the minimum over both strands" % (r, got, other))
                            break
            if not inc2:
                inc = []
                rows += rows2
            else:
                inc = inc2
        # ---- long reads: one past every size constant the host mentions (window sizes, cut-offs).  Whatever windows the host scans,
        # every boundary-extension query must be made against the whole read, at the piece's own position
        if nm == "msp_sequence":
            from .dt_graph import size_thresholds
            for c in size_thresholds(F, body)[-2:]:
                Nbig = c + 1
                rep.evaluations += 1
                h = MspHostOracles((), Nbig)
                it = Interp(F, False, h)
                h.it = it
                seq = Ref(Cell(Opaque("[u8]", {"seq"}), "seq"))
                perm = Ref(Cell(Opaque("[usize]", {"perm"}), "perm"))
                try:
                    it.call_body(body, [Int(64, False, val=h.K), seq, Adt("std::option::Option", 1, [perm]), mkbool(False)])
                except (Undecided, Unsupported) as e:
                    inc.append("read of %d bases: %s" % (Nbig, e))
                    continue
                except Diverge as e:
                    piece_problems.append("msp_sequence diverges on a read of %d bases: %s" % (Nbig, e))
                    continue
                part = [e for e in h.ev if e[0] == "exts-on-part"]
                if part:
                    piece_problems.append("on a read of %d bases the boundary extensions of a piece are computed against a part of the read (offset %s, length %s) instead "
                                          "of the whole read: a piece at the edge of that part loses the read's base next to it" % (Nbig, part[0][1], part[0][2]))
                ps = [e for e in h.ev if e[0] == "piece"]
                es = [e for e in h.ev if e[0] == "exts"]
                if len(ps) != len(es) or any(p_[2:] != e_[2:] for p_, e_ in zip(ps, es)):
                    piece_problems.append("on a read of %d bases pieces are cut at %s but their extensions are taken at %s" % (Nbig, [p_[2:] for p_ in ps][:3], [e_[2:] for e_ in es][:3]))
        # ---- reads of exactly k bases hold one k-mer: the host must still run the scanner on them and emit what it returns
        short_problems = []
        for N in (4, 5):
            def mk2(script, N=N):
                return MspHostOracles(script, N)

            def run2(h):
                it = Interp(F, False, h)
                h.it = it
                seq = Ref(Cell(Opaque("[u8]", {"seq"}), "seq"))
                perm = Ref(Cell(Opaque("[usize]", {"perm"}), "perm"))
                if nm == "msp_sequence":
                    args = [Int(64, False, val=h.K), seq, Adt("std::option::Option", 1, [perm]), mkbool(False)]
                else:
                    args = [Int(64, False, val=h.K), Ref(Cell(Opaque("V", {"seq"}), "seqv")), perm, mkbool(False)]
                return it.call_body(body, args)
            for a, out, h in explore(mk2, run2):
                rep.evaluations += 1
                if isinstance(out, tuple) and out and out[0] == "inconclusive":
                    inc.append(out[1])
                    continue
                if isinstance(out, tuple) and out and out[0] == "diverge":
                    short_problems.append("a read of %d bases (k = 4) makes %s diverge: %s" % (N, nm, out[1]))
                    continue
                if ("scan",) not in h.ev:
                    short_problems.append("a read of %d bases (k = 4) is not scanned: its %d k-mer(s) are never emitted to any bucket" % (N, N - 3))
                elif isinstance(out, VecV) and len(out.elems) != 2:
                    short_problems.append("a read of %d bases (k = 4): %d of the scanner's 2 intervals are emitted" % (N, len(out.elems)))
        if short_problems:
            rep.violated(rule_piece, "short-read/" + nm, "%s: %s" % (nm, short_problems[0]), site=F.site(body, body["line"]), witness={"kind": "row", "count": len(short_problems)})
        elif not inc:
            rep.holds(rule_piece, "short-read/" + nm, "%s scans reads of exactly k and of k+1 bases and emits every interval the scanner returns" % nm)
        if problems:
            rep.violated(rule_score, "score/" + nm, "%s score: %s" % (nm, problems[0]), site=F.site(body, body["line"]), witness={"kind": "row", "count": len(problems)})
        elif inc:
            rep.inconclusive(rule_score, "score/" + nm, "%s: %s" % (nm, inc[0]))
        else:
            rep.holds(rule_score, "score/" + nm, "%s: the score handed to the scanner is perm[rank(p)], and min(perm[rank(p)], perm[rank(rc p)]) in reverse-complement mode (%d rows)" % (nm, rows))
        if nm == "msp_sequence":
            if piece_problems:
                rep.violated(rule_piece, "piece", "msp_sequence: %s" % piece_problems[0], site=F.site(body, body["line"]), witness={"kind": "same-operand", "count": len(piece_problems)})
            elif not inc and not problems:
                rep.holds(rule_piece, "piece", "msp_sequence: each piece is read[start..start+len] of its interval, its extensions are from_slice_bounds(read, start, len), its bucket is that interval's bucket")


def score_closure_tables(F, rep, rule="C08.1"):
    msp_host_tables(F, rep, rule, "C08.2")


def piece_closure_table(F, rep, rule="C08.2"):
    # bucket = rank of the canonical minimizer
    bb = F.fns.get("msp::MspIntervalP::<P>::bucket")
    if bb is None:
        rep.violated("C08.4", "bucket", "anchor-missing: MspIntervalP::bucket", witness={"kind": "anchor-missing"})
        return
    msp = struct_of(F, "msp::MspIntervalP", {"minimizer": Opaque("P", {"pmer"}), "start": atom_int(32, "s"), "len": atom_int(16, "l"), "minimizer_pos": atom_int(32, "mp")})

    class HB(Oracles):
        def on_call(self, it, fn, args, dest_ty, term, caller):
            nm = fn.get("path", "").split("::")[-1]
            if fn.get("trait") == "Kmer" and nm == "min_rc":
                return Opaque("P", {"canon-minimizer"})
            if fn.get("trait") == "Kmer" and nm == "min_rc_flip":
                return Tup([Opaque("P", {"canon-minimizer"}), mkbool(False)])
            if fn.get("trait") == "Kmer" and nm == "to_u64":
                return Int(64, False, bits=[TOP] * 64, tags=frozenset(tags_of(recv(it, args[0])) | {"rank"}))
            return NotImplemented
    it = Interp(F, False, HB())
    rep.evaluations += 1
    try:
        out = it.call_body(bb, [Ref(Cell(msp, "self"))])
        if {"canon-minimizer", "rank"} <= set(tags_of(out)):
            rep.holds("C08.4", "bucket", "bucket() = rank of the canonical (min of both strands) minimizer")
        else:
            rep.violated("C08.4", "bucket", "bucket() is %r; required the rank of the canonical form of the minimizer (strand symmetry of the shard id)" % (out,),
                         site=F.site(bb, bb["line"]))
    except (Undecided, Unsupported, Diverge) as e:
        rep.inconclusive("C08.4", "bucket", "bucket(): %s" % e)


def slice_bounds_tables(F, rep, rule="C08.3"):
    for path, kind in (("Exts::from_slice_bounds", "slice"), ("Exts::from_dna_string", "dna")):
        body = F.fns.get(path)
        if body is None:
            rep.violated(rule, path, "anchor-missing: %s" % path, witness={"kind": "anchor-missing"})
            continue

        class H(LinOracles):
            def __init__(self, script=()):
                LinOracles.__init__(self, script)
                self.reads = []
                self.assume({"s": 1}, lo=0)
                self.assume({"l": 1}, lo=0)
                self.assume({"n": 1}, lo=0)

            def base(self, idx):
                nm = affs(idx)
                self.reads.append(nm)
                b = self.choose("base@" + nm, (0, 3))
                return Int(8, False, val=b)

            def on_call(self, it, fn, args, dest_ty, term, caller):
                nm = fn.get("path", "").split("::")[-1]
                if nm == "len" and args and "src" in tags_of(recv(it, args[0])):
                    return atom_int(64, "n")
                if nm == "get" and args and "src" in tags_of(recv(it, args[0])):
                    if "slice::<impl [" in fn.get("path", ""):
                        # <[u8]>::get: Some(&base) iff the index is below the read length
                        lt = it.binop("Lt", args[1], atom_int(64, "n"), "bool")
                        if not (isinstance(lt, Int) and lt.is_conc()):
                            raise Undecided("slice::get bound")
                        return some(Ref(Cell(self.base(args[1]), "src-elt"))) if lt.val else none()
                    return self.base(args[1])
                return NotImplemented

            def opaque_index(self, it, v, idx, base):
                if "src" in tags_of(v):
                    return Ref(Cell(self.base(idx), "src-elt"))
                return None

            def opaque_len(self, it, v):
                if "src" in tags_of(v):
                    return atom_int(64, "n")
                return None
        problems = []
        inc = []
        rows = 0

        def mk(script):
            return H(script)

        def run(h):
            it = Interp(F, False, h)
            return it.call_body(body, [Ref(Cell(Opaque("src", {"src"}), "src")), atom_int(64, "s"), atom_int(64, "l")])
        for a, out, h in explore(mk, run):
            rows += 1
            rep.evaluations += 1
            if isinstance(out, tuple) and out and out[0] == "inconclusive":
                inc.append(out[1])
                continue
            # rows outside the precondition (piece within the read: s + l <= n) are don't-care
            if h.find_model(("s", "l", "n"), lambda e: True, bound=6, extra=lambda e: e["s"] + e["l"] <= e["n"]) is None:
                continue
            if isinstance(out, tuple) and out and out[0] == "diverge":
                problems.append("diverges: %s" % out[1])
                continue
            has_l = h.truth("Gt", {"s": 1}, 0)
            has_r = h.truth("Lt", {"s": 1, "l": 1, "n": -1}, 0)
            if has_l is None or has_r is None:
                problems.append("the read-end tests are not (start > 0) and (start + len < read length): %s" % [n for n, _ in h.obs.get("cmp", [])])
                continue
            want = 0
            if has_l:
                want |= 1 << a.get("base@s-1", 0)
            if has_r:
                want |= 1 << (4 + a.get("base@l+s", 0))
            ev = out.fields[0] if isinstance(out, Adt) else None
            want_reads = (["s-1"] if has_l else []) + (["l+s"] if has_r else [])
            if sorted(h.reads) != sorted(want_reads):
                problems.append("flanking bases are read at %s; required %s (the base before the piece / the base after it)" % (h.reads, want_reads))
            elif not (isinstance(ev, Int) and ev.is_conc() and ev.val == want):
                problems.append("piece at [s, s+l) of a read of length n with %s: extension byte %s, required %s (left flank in the low nibble, right flank in the "
                                "high nibble, none at a read end)" % ({k: v for k, v in h.obs.get("cmp", [])}, bin(ev.val) if isinstance(ev, Int) and ev.is_conc() else ev, bin(want)))
        if problems:
            rep.violated(rule, path, "%s: %s" % (path, problems[0]), site=F.site(body, body["line"]), witness={"kind": "row", "count": len(problems)})
        elif inc:
            rep.inconclusive(rule, path, "%s: %s" % (path, inc[0]))
        else:
            rep.holds(rule, path, "%s: left extension ⇔ start > 0 (base start-1, low nibble), right extension ⇔ start+len < read length (base start+len, high nibble) (%d rows)" % (path, rows))


def from_slice_table(F, rep, rule="C08.5"):
    body = F.fns.get("Vmer::from_slice")
    if body is None:
        rep.violated(rule, "Vmer::from_slice", "anchor-missing", witness={"kind": "anchor-missing"})
        return

    class H(Oracles):
        def __init__(self):
            Oracles.__init__(self)
            self.sets = []
            self.newlen = None

        def on_call(self, it, fn, args, dest_ty, term, caller):
            nm = fn.get("path", "").split("::")[-1]
            if fn.get("trait") == "Vmer" and nm == "new":
                self.newlen = args[0].val if isinstance(args[0], Int) and args[0].is_conc() else repr(args[0])
                return Opaque("V", {"fresh"})
            if fn.get("trait") == "Mer" and nm == "set_mut":
                self.sets.append((args[1].val if isinstance(args[1], Int) and args[1].is_conc() else None, [t for t in tags_of(args[2]) if t.startswith("in:")]))
                return Tup([])
            return NotImplemented
    for n in (0, 1, 4):
        h = H()
        it = Interp(F, False, h)
        src = Ref(Cell(Arr([Int(8, False, bits=[TOP] * 8, tags=frozenset({"in:%d" % i})) for i in range(n)]), "seq"))
        rep.evaluations += 1
        try:
            it.call_body(body, [src])
        except (Undecided, Unsupported, Diverge) as e:
            rep.inconclusive(rule, "Vmer::from_slice", "from_slice: %s" % e)
            return
        if h.newlen != n or h.sets != [(i, ["in:%d" % i]) for i in range(n)]:
            rep.violated(rule, "Vmer::from_slice", "Vmer::from_slice of %d bases creates a container of length %s and writes %s; every base i must be written at position i" % (n, h.newlen, h.sets),
                         site=F.site(body, body["line"]))
            return
    rep.holds(rule, "Vmer::from_slice", "Vmer::from_slice creates a container of the slice's length and writes every base at its position")
