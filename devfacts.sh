#!/bin/sh
# development helper: (re)generate a cached fact file at /tmp/devfacts.json from VERIF_REPO (default /repo)
cd /verif && python3 - "$@" <<'PY'
import sys, json
sys.path.insert(0, '/verif')
from pysa import facts
d, info = facts.run_driver(thorough=('--thorough' in sys.argv))
json.dump(d, open('/tmp/devfacts.json' if '--thorough' not in sys.argv else '/tmp/devfacts_thorough.json', 'w'))
print(info)
PY
